// C18 harness: power-of-two / multiple / n-th-bit utilities, gtc/gtx integer functions, gtc/bitfield.
// argv: <trace-out> <pairs-file> <mode>
#include "common.hpp"
#include <glm/gtc/round.hpp>
#include <glm/gtc/bitfield.hpp>
#include <glm/gtc/integer.hpp>
#include <glm/gtx/integer.hpp>
#include <glm/gtx/bit.hpp>
#include <glm/ext/scalar_integer.hpp>
#include <glm/ext/vector_integer.hpp>
#include <fstream>
#include <map>
using namespace vh;

static std::map<int, std::vector<std::pair<int, int>>> g_pairs;
static bool g_thorough = false;

template<int L, class T, glm::qualifier Q> glm::vec<L, T, Q> mkvec(const uint64_t* b) {
    glm::vec<L, T, Q> v; for (int i = 0; i < L; ++i) v[i] = from_bits<T>(b[i]); return v;
}
#define EV(OP, T, L) Ev(OP).str("t", TI<T>::code()).num("n", L)

// ------------------------------------------------------------------ power of two
template<class T> void pow2_scalar(uint64_t b) {
    T x = from_bits<T>(b);
    { bool r = glm::isPowerOfTwo(x);   EV("isPowerOfTwo", T, 0).arg(x).res(r).emit(); }
    { T r = glm::nextPowerOfTwo(x);    EV("nextPowerOfTwo", T, 0).arg(x).res(r).emit(); }
    { T r = glm::prevPowerOfTwo(x);    EV("prevPowerOfTwo", T, 0).arg(x).res(r).emit(); }
    { T r = glm::ceilPowerOfTwo(x);    EV("ceilPowerOfTwo", T, 0).arg(x).res(r).emit(); }
    { T r = glm::floorPowerOfTwo(x);   EV("floorPowerOfTwo", T, 0).arg(x).res(r).emit(); }
    { T r = glm::roundPowerOfTwo(x);   EV("roundPowerOfTwo", T, 0).arg(x).res(r).emit(); }
    { T r = glm::highestBitValue(x);   EV("highestBitValue", T, 0).arg(x).res(r).emit(); }
    { T r = glm::lowestBitValue(x);    EV("lowestBitValue", T, 0).arg(x).res(r).emit(); }
    { T r = glm::powerOfTwoAbove(x);   EV("powerOfTwoAbove", T, 0).arg(x).res(r).emit(); }
    { T r = glm::powerOfTwoBelow(x);   EV("powerOfTwoBelow", T, 0).arg(x).res(r).emit(); }
    { T r = glm::powerOfTwoNearest(x); EV("powerOfTwoNearest", T, 0).arg(x).res(r).emit(); }
}
template<int L, class T, glm::qualifier Q> void pow2_vec(const uint64_t* b) {
    glm::vec<L, T, Q> x = mkvec<L, T, Q>(b);
    { glm::vec<L, bool, Q> r = glm::isPowerOfTwo(x); EV("isPowerOfTwo", T, L).arg(x).res(r).emit(); }
    { auto r = glm::nextPowerOfTwo(x);    EV("nextPowerOfTwo", T, L).arg(x).res(r).emit(); }
    { auto r = glm::prevPowerOfTwo(x);    EV("prevPowerOfTwo", T, L).arg(x).res(r).emit(); }
    { auto r = glm::ceilPowerOfTwo(x);    EV("ceilPowerOfTwo", T, L).arg(x).res(r).emit(); }
    { auto r = glm::floorPowerOfTwo(x);   EV("floorPowerOfTwo", T, L).arg(x).res(r).emit(); }
    { auto r = glm::roundPowerOfTwo(x);   EV("roundPowerOfTwo", T, L).arg(x).res(r).emit(); }
    { auto r = glm::highestBitValue(x);   EV("highestBitValue", T, L).arg(x).res(r).emit(); }
    { auto r = glm::lowestBitValue(x);    EV("lowestBitValue", T, L).arg(x).res(r).emit(); }
    { auto r = glm::powerOfTwoAbove(x);   EV("powerOfTwoAbove", T, L).arg(x).res(r).emit(); }
    { auto r = glm::powerOfTwoBelow(x);   EV("powerOfTwoBelow", T, L).arg(x).res(r).emit(); }
    { auto r = glm::powerOfTwoNearest(x); EV("powerOfTwoNearest", T, L).arg(x).res(r).emit(); }
}

// ------------------------------------------------------------------ multiples (m >= 1)
template<class T> void mult_scalar(uint64_t xb, uint64_t mb) {
    T x = from_bits<T>(xb), m = from_bits<T>(mb);
    { bool r = glm::isMultiple(x, m); EV("isMultiple", T, 0).arg(x).arg(m).res(r).emit(); }
    { T r = glm::nextMultiple(x, m);  EV("nextMultiple", T, 0).arg(x).arg(m).res(r).emit(); }
    { T r = glm::prevMultiple(x, m);  EV("prevMultiple", T, 0).arg(x).arg(m).res(r).emit(); }
    { T r = glm::ceilMultiple(x, m);  EV("ceilMultiple", T, 0).arg(x).arg(m).res(r).emit(); }
    { T r = glm::floorMultiple(x, m); EV("floorMultiple", T, 0).arg(x).arg(m).res(r).emit(); }
    { T r = glm::roundMultiple(x, m); EV("roundMultiple", T, 0).arg(x).arg(m).res(r).emit(); }
}
template<int L, class T, glm::qualifier Q> void mult_vec(const uint64_t* xb, const uint64_t* mb) {
    glm::vec<L, T, Q> x = mkvec<L, T, Q>(xb), m = mkvec<L, T, Q>(mb);
    T ms = from_bits<T>(mb[0]);
    { glm::vec<L, bool, Q> r = glm::isMultiple(x, m);  EV("isMultiple", T, L).arg(x).arg(m).res(r).emit(); }
    { glm::vec<L, bool, Q> r = glm::isMultiple(x, ms); EV("isMultiple", T, L).arg(x).arg(ms).res(r).emit(); }
    { auto r = glm::nextMultiple(x, m);  EV("nextMultiple", T, L).arg(x).arg(m).res(r).emit(); }
    { auto r = glm::nextMultiple(x, ms); EV("nextMultiple", T, L).arg(x).arg(ms).res(r).emit(); }
    { auto r = glm::prevMultiple(x, m);  EV("prevMultiple", T, L).arg(x).arg(m).res(r).emit(); }
    { auto r = glm::prevMultiple(x, ms); EV("prevMultiple", T, L).arg(x).arg(ms).res(r).emit(); }
    { auto r = glm::ceilMultiple(x, m);  EV("ceilMultiple", T, L).arg(x).arg(m).res(r).emit(); }
    { auto r = glm::floorMultiple(x, m); EV("floorMultiple", T, L).arg(x).arg(m).res(r).emit(); }
    { auto r = glm::roundMultiple(x, m); EV("roundMultiple", T, L).arg(x).arg(m).res(r).emit(); }
}
template<class T> void mult_float(T x, T m) {
    { T r = glm::ceilMultiple(x, m);  EV("ceilMultiple", T, 0).arg(x).arg(m).res(r).emit(); }
    { T r = glm::floorMultiple(x, m); EV("floorMultiple", T, 0).arg(x).arg(m).res(r).emit(); }
    { T r = glm::roundMultiple(x, m); EV("roundMultiple", T, 0).arg(x).arg(m).res(r).emit(); }
    glm::vec<3, T, glm::defaultp> xv(x, -x, x + m), mv(m, m, m);
    { auto r = glm::ceilMultiple(xv, mv);  EV("ceilMultiple", T, 3).arg(xv).arg(mv).res(r).emit(); }
    { auto r = glm::floorMultiple(xv, mv); EV("floorMultiple", T, 3).arg(xv).arg(mv).res(r).emit(); }
    { auto r = glm::roundMultiple(xv, mv); EV("roundMultiple", T, 3).arg(xv).arg(mv).res(r).emit(); }
}

// ------------------------------------------------------------------ findNSB, mask, rotate, fill
template<class T> void nsb_scalar(uint64_t b, int n) {
    T x = from_bits<T>(b);
    int r = glm::findNSB(x, n); EV("findNSB", T, 0).arg(x).arg(n).res(r).emit();
}
template<int L, class T, glm::qualifier Q> void nsb_vec(const uint64_t* b, int n) {
    glm::vec<L, T, Q> x = mkvec<L, T, Q>(b);
    glm::vec<L, int, Q> nv; for (int i = 0; i < L; ++i) nv[i] = 1 + (n + i) % int(sizeof(T) * 8);
    glm::vec<L, int, Q> r = glm::findNSB(x, nv); EV("findNSB", T, L).arg(x).arg(nv).res(r).emit();
}
template<class T> void bitfield_scalar(uint64_t b) {
    constexpr int W = int(sizeof(T) * 8);
    T x = from_bits<T>(b);
    for (int s = 1; s < W; s += (W <= 16 || g_thorough ? 1 : 3)) {
        { T r = glm::bitfieldRotateRight(x, s); EV("bitfieldRotateRight", T, 0).arg(x).arg(s).res(r).emit(); }
        { T r = glm::bitfieldRotateLeft(x, s);  EV("bitfieldRotateLeft", T, 0).arg(x).arg(s).res(r).emit(); }
    }
}
template<int L, class T, glm::qualifier Q> void bitfield_vec(const uint64_t* b, int s) {
    glm::vec<L, T, Q> x = mkvec<L, T, Q>(b);
    { auto r = glm::bitfieldRotateRight(x, s); EV("bitfieldRotateRight", T, L).arg(x).arg(s).res(r).emit(); }
    { auto r = glm::bitfieldRotateLeft(x, s);  EV("bitfieldRotateLeft", T, L).arg(x).arg(s).res(r).emit(); }
}
template<class T> void fill_scalar(uint64_t b, int first, int count) {
    T x = from_bits<T>(b);
    { T r = glm::bitfieldFillOne(x, first, count);  EV("bitfieldFillOne", T, 0).arg(x).arg(first).arg(count).res(r).emit(); }
    { T r = glm::bitfieldFillZero(x, first, count); EV("bitfieldFillZero", T, 0).arg(x).arg(first).arg(count).res(r).emit(); }
}
template<int L, class T, glm::qualifier Q> void fill_vec(const uint64_t* b, int first, int count) {
    glm::vec<L, T, Q> x = mkvec<L, T, Q>(b);
    { auto r = glm::bitfieldFillOne(x, first, count);  EV("bitfieldFillOne", T, L).arg(x).arg(first).arg(count).res(r).emit(); }
    { auto r = glm::bitfieldFillZero(x, first, count); EV("bitfieldFillZero", T, L).arg(x).arg(first).arg(count).res(r).emit(); }
}
template<class T> void mask_all() {
    constexpr int W = int(sizeof(T) * 8);
    for (int n = 0; n <= W; ++n) {
        T nn = T(n); T r = glm::mask(nn); EV("mask", T, 0).arg(nn).res(r).emit();
    }
    // compile-time constant arguments at the full width: a build may fold these calls, so that an over-wide shift or a promotion slip
    // shows as a difference between optimisation levels (C15) as well as a wrong value
    { constexpr T full = T(W); T r = glm::mask(full); EV("mask", T, 0).arg(full).res(r).emit();
      glm::vec<4, T, glm::defaultp> nv(T(W), T(W - 1), T(1), T(W)); auto rv = glm::mask(nv); EV("mask", T, 4).arg(nv).res(rv).emit();
      const T z = T(0), o = T(~T(0)); const int first = 0, count = W;
      T f1 = glm::bitfieldFillOne(z, first, count); EV("bitfieldFillOne", T, 0).arg(z).arg(first).arg(count).res(f1).emit();
      T f0 = glm::bitfieldFillZero(o, first, count); EV("bitfieldFillZero", T, 0).arg(o).arg(first).arg(count).res(f0).emit(); }
    for (int n = 0; n + 3 <= W - 2; ++n) {
        glm::vec<4, T, glm::defaultp> nv(T(n), T(n + 1), T(n + 2), T(n + 3)); auto r = glm::mask(nv); EV("mask", T, 4).arg(nv).res(r).emit();
        glm::vec<2, T, glm::mediump> n2(T(n + 1), T(n)); auto r2 = glm::mask(n2); EV("mask", T, 2).arg(n2).res(r2).emit();
        glm::vec<3, T, glm::lowp> n3(T(n + 2), T(n), T(n + 1)); auto r3 = glm::mask(n3); EV("mask", T, 3).arg(n3).res(r3).emit();
        glm::vec<1, T, glm::defaultp> n1 = glm::vec<1, T, glm::defaultp>(static_cast<T>(n)); auto r1 = glm::mask(n1); EV("mask", T, 1).arg(n1).res(r1).emit();
    }
}

// ------------------------------------------------------------------ interleave
static void interleave8(uint8_t x, uint8_t y, uint8_t z, uint8_t w) {
    { glm::uint16 r = glm::bitfieldInterleave(glm::uint8(x), glm::uint8(y)); EV("interleave", glm::uint8, 2).arg(glm::uint8(x)).arg(glm::uint8(y)).res(r).emit();
      glm::u8vec2 d = glm::bitfieldDeinterleave(r); EV("deinterleave", glm::uint16, 2).arg(r).res(d).emit(); }
    { glm::int16 r = glm::bitfieldInterleave(glm::int8(x), glm::int8(y)); EV("interleave", glm::int8, 2).arg(glm::int8(x)).arg(glm::int8(y)).res(r).emit(); }
    { glm::u8vec2 v(x, y); glm::uint16 r = glm::bitfieldInterleave(v); EV("interleaveV", glm::uint8, 2).arg(v).res(r).emit(); }
    { glm::uint32 r = glm::bitfieldInterleave(glm::uint8(x), glm::uint8(y), glm::uint8(z)); EV("interleave", glm::uint8, 3).arg(glm::uint8(x)).arg(glm::uint8(y)).arg(glm::uint8(z)).res(r).emit(); }
    { glm::int32 r = glm::bitfieldInterleave(glm::int8(x), glm::int8(y), glm::int8(z)); EV("interleave", glm::int8, 3).arg(glm::int8(x)).arg(glm::int8(y)).arg(glm::int8(z)).res(r).emit(); }
    { glm::uint32 r = glm::bitfieldInterleave(glm::uint8(x), glm::uint8(y), glm::uint8(z), glm::uint8(w)); EV("interleave", glm::uint8, 4).arg(glm::uint8(x)).arg(glm::uint8(y)).arg(glm::uint8(z)).arg(glm::uint8(w)).res(r).emit(); }
    { glm::int32 r = glm::bitfieldInterleave(glm::int8(x), glm::int8(y), glm::int8(z), glm::int8(w)); EV("interleave", glm::int8, 4).arg(glm::int8(x)).arg(glm::int8(y)).arg(glm::int8(z)).arg(glm::int8(w)).res(r).emit(); }
}
static void interleave16(uint16_t x, uint16_t y, uint16_t z, uint16_t w) {
    { glm::uint32 r = glm::bitfieldInterleave(glm::uint16(x), glm::uint16(y)); EV("interleave", glm::uint16, 2).arg(glm::uint16(x)).arg(glm::uint16(y)).res(r).emit();
      glm::u16vec2 d = glm::bitfieldDeinterleave(r); EV("deinterleave", glm::uint32, 2).arg(r).res(d).emit(); }
    { glm::int32 r = glm::bitfieldInterleave(glm::int16(x), glm::int16(y)); EV("interleave", glm::int16, 2).arg(glm::int16(x)).arg(glm::int16(y)).res(r).emit(); }
    { glm::u16vec2 v(x, y); glm::uint32 r = glm::bitfieldInterleave(v); EV("interleaveV", glm::uint16, 2).arg(v).res(r).emit(); }
    { glm::uint64 r = glm::bitfieldInterleave(glm::uint16(x), glm::uint16(y), glm::uint16(z)); EV("interleave", glm::uint16, 3).arg(glm::uint16(x)).arg(glm::uint16(y)).arg(glm::uint16(z)).res(r).emit(); }
    { glm::int64 r = glm::bitfieldInterleave(glm::int16(x), glm::int16(y), glm::int16(z)); EV("interleave", glm::int16, 3).arg(glm::int16(x)).arg(glm::int16(y)).arg(glm::int16(z)).res(r).emit(); }
    { glm::uint64 r = glm::bitfieldInterleave(glm::uint16(x), glm::uint16(y), glm::uint16(z), glm::uint16(w)); EV("interleave", glm::uint16, 4).arg(glm::uint16(x)).arg(glm::uint16(y)).arg(glm::uint16(z)).arg(glm::uint16(w)).res(r).emit(); }
    { glm::int64 r = glm::bitfieldInterleave(glm::int16(x), glm::int16(y), glm::int16(z), glm::int16(w)); EV("interleave", glm::int16, 4).arg(glm::int16(x)).arg(glm::int16(y)).arg(glm::int16(z)).arg(glm::int16(w)).res(r).emit(); }
}
static void interleave32(uint32_t x, uint32_t y, uint32_t z) {
    { glm::uint64 r = glm::bitfieldInterleave(glm::uint32(x), glm::uint32(y)); EV("interleave", glm::uint32, 2).arg(glm::uint32(x)).arg(glm::uint32(y)).res(r).emit();
      glm::u32vec2 d = glm::bitfieldDeinterleave(r); EV("deinterleave", glm::uint64, 2).arg(r).res(d).emit(); }
    { glm::int64 r = glm::bitfieldInterleave(glm::int32(x), glm::int32(y)); EV("interleave", glm::int32, 2).arg(glm::int32(x)).arg(glm::int32(y)).res(r).emit(); }
    { glm::u32vec2 v(x, y); glm::uint64 r = glm::bitfieldInterleave(v); EV("interleaveV", glm::uint32, 2).arg(v).res(r).emit(); }
    { glm::uint64 r = glm::bitfieldInterleave(glm::uint32(x), glm::uint32(y), glm::uint32(z)); EV("interleave", glm::uint32, 3).arg(glm::uint32(x)).arg(glm::uint32(y)).arg(glm::uint32(z)).res(r).emit(); }
    { glm::int64 r = glm::bitfieldInterleave(glm::int32(x), glm::int32(y), glm::int32(z)); EV("interleave", glm::int32, 3).arg(glm::int32(x)).arg(glm::int32(y)).arg(glm::int32(z)).res(r).emit(); }
}

// ------------------------------------------------------------------ gtc/gtx integer
static void gtx_integer(Rng& rng) {
    for (int x = -12; x <= 12; ++x) for (unsigned y = 0; y <= 12; ++y) {
        double mag = 1; for (unsigned i = 0; i < y; ++i) mag *= (x < 0 ? -x : x);
        if (mag < 2147483647.0) { int r = glm::pow(x, y); EV("ipow", int, 0).arg(x).arg(y).res(r).emit(); }
        if (x >= 0 && mag < 4294967295.0) { unsigned r = glm::pow(unsigned(x), y); EV("ipow", unsigned, 0).arg(unsigned(x)).arg(y).res(r).emit(); }
    }
    { int x = 2; unsigned y = 30; int r = glm::pow(x, y); EV("ipow", int, 0).arg(x).arg(y).res(r).emit(); }
    { unsigned x = 2, y = 31; unsigned r = glm::pow(x, y); EV("ipow", unsigned, 0).arg(x).arg(y).res(r).emit(); }
    { int x = -2; unsigned y = 31; int r = glm::pow(x, y); EV("ipow", int, 0).arg(x).arg(y).res(r).emit(); }
    std::vector<uint64_t> lat = int_lattice<unsigned>();
    for (size_t i = 0; i < 4000; ++i) lat.push_back(i < 2100 ? i : (rng.next() >> rng.below(33)));
    for (uint64_t k = 1; k < 300; ++k) { lat.push_back(k * k); lat.push_back(k * k - 1); lat.push_back(k * k + 1); }
    for (uint64_t k = 46330; k <= 46341; ++k) { lat.push_back(k * k); lat.push_back(k * k - 1); }
    for (uint64_t k = 65530; k <= 65535; ++k) { lat.push_back(k * k); lat.push_back(k * k - 1); }
    for (uint64_t b : lat) {
        unsigned u = unsigned(b); int s = from_bits<int>(b);
        { unsigned r = glm::sqrt(u); EV("isqrt", unsigned, 0).arg(u).res(r).emit(); }
        if (s >= 0) { int r = glm::sqrt(s); EV("isqrt", int, 0).arg(s).res(r).emit(); }
        { unsigned r = glm::nlz(u); EV("nlz", unsigned, 0).arg(u).res(r).emit(); }
        if (s > 0) { int r = glm::log2(s); EV("ilog2", int, 0).arg(s).res(r).emit(); }
        if (s > 0) { uint64_t bb[4] = { b, (b >> 1) | 1, (b >> 7) | 1, (b >> 13) | 1 }; glm::ivec4 v = mkvec<4, int, glm::defaultp>(bb); glm::ivec4 r = glm::log2(v); EV("ilog2", int, 4).arg(v).res(r).emit();
                     glm::ivec2 v2(v.y, v.x); glm::ivec2 r2 = glm::log2(v2); EV("ilog2", int, 2).arg(v2).res(r2).emit(); }
    }
    for (int i = 0; i <= 12; ++i) { int r = glm::factorial(i); EV("factorial", int, 0).arg(i).res(r).emit(); }
    for (unsigned i = 0; i <= 12; ++i) { unsigned r = glm::factorial(i); EV("factorial", unsigned, 0).arg(i).res(r).emit(); }
    for (long i = 0; i <= 20; ++i) { long r = glm::factorial(i); EV("factorial", long, 0).arg(i).res(r).emit(); }
    for (int i = 0; i + 3 <= 12; ++i) { glm::ivec4 v(i, i + 1, i + 2, i + 3); glm::ivec4 r = glm::factorial(v); EV("factorial", int, 4).arg(v).res(r).emit();
        glm::ivec3 v3(i + 2, i, i + 1); glm::ivec3 r3 = glm::factorial(v3); EV("factorial", int, 3).arg(v3).res(r3).emit();
        glm::ivec2 v2(i + 1, i); glm::ivec2 r2 = glm::factorial(v2); EV("factorial", int, 2).arg(v2).res(r2).emit(); }
    // mod: y > 0 and |x|, y small enough that the documented formula cannot overflow
    std::vector<int> xs, ys;
    for (int k = -40; k <= 40; ++k) xs.push_back(k);
    for (int k = 1; k <= 17; ++k) ys.push_back(k);
    for (int i = 0; i < 300; ++i) { xs.push_back(int(rng.next() % 2000000001ull) - 1000000000); ys.push_back(1 + int(rng.next() % 1000000000ull)); }
    for (size_t i = 0; i < xs.size(); ++i) for (size_t j = (i % 3); j < ys.size(); j += 3) {
        int x = xs[i], y = ys[j];
        { int r = glm::mod(x, y); EV("imod", int, 0).arg(x).arg(y).res(r).emit(); }
        if (x >= 0) { unsigned r = glm::mod(unsigned(x), unsigned(y)); EV("imod", unsigned, 0).arg(unsigned(x)).arg(unsigned(y)).res(r).emit(); }
    }
}

// ------------------------------------------------------------------ drivers
template<class T> std::vector<uint64_t> values(Rng& rng, size_t extra) {
    constexpr int W = int(sizeof(T) * 8);
    std::vector<uint64_t> v;
    if (W == 8 || (W == 16 && g_thorough)) { for (uint64_t x = 0; x < (1ull << W); ++x) v.push_back(x); return v; }
    v = int_lattice<T>();
    const uint64_t M = W == 64 ? ~0ull : ((1ull << W) - 1);
    for (uint64_t k = 0; k < 70; ++k) v.push_back(k);
    for (size_t i = 0; i < extra; ++i) { uint64_t r = rng.next(); if (i % 2) r >>= rng.below(W); v.push_back(r & M); }
    return v;
}

template<class T> void drive_type(Rng& rng) {
    constexpr int W = int(sizeof(T) * 8);
    std::vector<uint64_t> v = values<T>(rng, g_thorough ? 6000 : 250);
    size_t n = v.size();
    for (uint64_t x : v) pow2_scalar<T>(x);
    for (size_t i = 0; i < n; ++i) { uint64_t b[4] = { v[i], v[(i + 1) % n], v[(i + 2) % n], v[(i + 3) % n] };
        switch (i % 6) { case 0: pow2_vec<1, T, glm::defaultp>(b); break; case 1: pow2_vec<2, T, glm::defaultp>(b); break; case 2: pow2_vec<3, T, glm::defaultp>(b); break;
                         case 3: pow2_vec<4, T, glm::defaultp>(b); break; case 4: pow2_vec<3, T, glm::mediump>(b); break; default: pow2_vec<4, T, glm::lowp>(b); } }
    // multiples
    std::vector<uint64_t> ms;
    const uint64_t smax = (1ull << (W - 1)) - 1;
    if (W == 8 && g_thorough) { for (uint64_t m = 1; m <= (std::numeric_limits<T>::is_signed ? 127u : 255u); ++m) ms.push_back(m); }
    else { for (uint64_t m : { 1ull, 2ull, 3ull, 4ull, 7ull, 10ull, 16ull, 100ull, 127ull }) if (g_thorough || m != 4) ms.push_back(m);
           if (W > 8) { ms.push_back(255); ms.push_back(1000); ms.push_back(4096); ms.push_back(smax / 3); } }
    // multipliers in the upper half of the range: remainders >= 2^(W-1) (sums such as Remainder + Remainder wrap there)
    if (!(W == 8 && g_thorough)) { if (std::numeric_limits<T>::is_signed) { ms.push_back(smax - 1); ms.push_back((smax >> 1) + 2); }
                                   else { ms.push_back((1ull << (W - 1)) + 1); ms.push_back(3ull << (W - 2)); ms.push_back((W == 64 ? ~0ull : ((1ull << W) - 1)) - 2); } }
    std::vector<uint64_t> xs = v;
    if (W > 8 && !g_thorough && xs.size() > 110) { std::vector<uint64_t> t; for (size_t i = 0; i < xs.size(); i += xs.size() / 110 + 1) t.push_back(xs[i]); for (uint64_t k = 0; k < 40; ++k) { t.push_back(k); t.push_back(0 - k); } xs = t; }
    size_t k = 0;
    for (uint64_t x : xs) for (uint64_t m : ms) {
        mult_scalar<T>(x, m);
        if ((k++ % 5) == 0) { uint64_t xb[4] = { x, x + 1, x ^ 0x55, x * 3 }, mb[4] = { m, ms[k % ms.size()], ms[(k + 3) % ms.size()], ms[(k + 7) % ms.size()] };
            switch (k % 4) { case 0: mult_vec<1, T, glm::defaultp>(xb, mb); break; case 1: mult_vec<2, T, glm::mediump>(xb, mb); break; case 2: mult_vec<3, T, glm::lowp>(xb, mb); break; default: mult_vec<4, T, glm::defaultp>(xb, mb); } }
    }
    // findNSB
    std::vector<uint64_t> nv = v; if (nv.size() > 160 && !g_thorough) nv.resize(160);
    for (size_t i = 0; i < nv.size(); ++i) { for (int c = 1; c <= W + 1; c += (W <= 16 ? 1 : 1 + int(i % 3))) nsb_scalar<T>(nv[i], c);
        uint64_t b[4] = { nv[i], nv[(i + 1) % nv.size()], nv[(i + 2) % nv.size()], nv[(i + 3) % nv.size()] };
        switch (i % 4) { case 0: nsb_vec<1, T, glm::defaultp>(b, int(i)); break; case 1: nsb_vec<2, T, glm::defaultp>(b, int(i)); break; case 2: nsb_vec<3, T, glm::mediump>(b, int(i)); break; default: nsb_vec<4, T, glm::lowp>(b, int(i)); } }
    // rotate / fill / mask
    std::vector<uint64_t> bv = v; if (bv.size() > 200 && !g_thorough) { std::vector<uint64_t> t; for (size_t i = 0; i < bv.size(); i += bv.size() / 200 + 1) t.push_back(bv[i]); bv = t; }
    for (size_t i = 0; i < bv.size(); ++i) { bitfield_scalar<T>(bv[i]);
        uint64_t b[4] = { bv[i], bv[(i + 1) % bv.size()], bv[(i + 2) % bv.size()], bv[(i + 3) % bv.size()] }; int s = 1 + int(i % (W - 1));
        switch (i % 4) { case 0: bitfield_vec<1, T, glm::defaultp>(b, s); break; case 1: bitfield_vec<2, T, glm::mediump>(b, s); break; case 2: bitfield_vec<3, T, glm::lowp>(b, s); break; default: bitfield_vec<4, T, glm::defaultp>(b, s); } }
    const auto& pairs = g_pairs[W];
    std::vector<uint64_t> fv = { 0, ~0ull, 0x5555555555555555ull, 0xAAAAAAAAAAAAAAAAull, 0x0123456789ABCDEFull, 1, 1ull << (W - 1) };
    for (size_t i = 0; i < fv.size(); ++i) for (size_t p = 0; p < pairs.size(); p += (W <= 16 || g_thorough ? 1 : 3)) {
        fill_scalar<T>(fv[i], pairs[p].first, pairs[p].second);
        if (p % 4 == i % 4) { uint64_t b[4] = { fv[i], ~fv[i], fv[(i + 1) % fv.size()], fv[(i + 2) % fv.size()] };
            switch (p % 3) { case 0: fill_vec<4, T, glm::defaultp>(b, pairs[p].first, pairs[p].second); break; case 1: fill_vec<3, T, glm::mediump>(b, pairs[p].first, pairs[p].second); break; default: fill_vec<2, T, glm::lowp>(b, pairs[p].first, pairs[p].second); } }
    }
    mask_all<T>();
}

static void drive_float(Rng& rng) {
    const float fx[] = { 0.f, 1.f, 3.f, 7.f, 8.f, 3.4f, 1.4f, 12.f, 100.5f, 0.75f, 16.f, 1000.f, 2.5f, 6.f, 9.f, 0.3f, 4.f, 10.f, 0.5f, 1.5f };
    const float fm[] = { 1.f, 2.f, 4.f, 0.5f, 0.25f, 3.f, 0.3f, 8.f, 1.5f, 10.f, 0.75f };
    for (float x : fx) for (float m : fm) { mult_float<float>(x, m); mult_float<float>(-x, m); mult_float<double>(double(x), double(m)); mult_float<double>(-double(x), double(m)); }
    for (int i = 0; i < (g_thorough ? 6000 : 250); ++i) {
        int q = int(rng.below(4001)) - 2000; int e = int(rng.below(9)) - 4; int mq = 1 + int(rng.below(40));
        float m = float(mq) * (e >= 0 ? float(1 << e) : 1.0f / float(1 << -e));
        float x = float(q) * (e >= 0 ? float(1 << e) : 1.0f / float(1 << -e)) * (i % 3 == 0 ? float(mq) : 1.0f);
        mult_float<float>(x, m); mult_float<double>(double(x), double(m));
    }
}

static void drive_interleave(Rng& rng) {
    for (unsigned x = 0; x < 256; ++x) { interleave8(uint8_t(x), uint8_t(x * 7 + 3), uint8_t(~x), uint8_t(x ^ 0x5a)); interleave8(uint8_t(x), 0, 0, 0); interleave8(0, uint8_t(x), 0, 0); interleave8(0, 0, uint8_t(x), 0); interleave8(0, 0, 0, uint8_t(x)); }
    for (int i = 0; i < (g_thorough ? 65536 : 3000); ++i) { uint64_t r = rng.next(); interleave8(uint8_t(r), uint8_t(r >> 8), uint8_t(r >> 16), uint8_t(r >> 24)); }
    for (unsigned b = 0; b < 16; ++b) { uint16_t o = uint16_t(1u << b); interleave16(o, 0, 0, 0); interleave16(0, o, 0, 0); interleave16(0, 0, o, 0); interleave16(0, 0, 0, o); interleave16(uint16_t(~o), o, uint16_t(o - 1), 0xffff); }
    for (int i = 0; i < (g_thorough ? 200000 : 6000); ++i) { uint64_t r = rng.next(); interleave16(uint16_t(r), uint16_t(r >> 16), uint16_t(r >> 32), uint16_t(r >> 48)); }
    for (unsigned b = 0; b < 32; ++b) { uint32_t o = 1u << b; interleave32(o, 0, 0); interleave32(0, o, 0); interleave32(0, 0, o); interleave32(~o, o, o - 1); }
    for (int i = 0; i < (g_thorough ? 100000 : 4000); ++i) { uint64_t r = rng.next(), q = rng.next(); interleave32(uint32_t(r), uint32_t(r >> 32), uint32_t(q)); }
}

static void body(int argc, char** argv) {
    if (argc < 4) { std::fprintf(stderr, "usage: c18 <out> <pairs> <mode>\n"); std::exit(2); }
    { std::ifstream in(argv[2]); int W, off, n; while (in >> W >> off >> n) g_pairs[W].push_back({ off, n }); }
    if (g_pairs[8].empty() || g_pairs[64].empty()) { std::fprintf(stderr, "pairs file empty\n"); std::exit(2); }
    g_thorough = std::string(argv[3]) == "thorough";
    Rng rng(seed_from_env());
    drive_type<unsigned char>(rng);  drive_type<signed char>(rng);
    drive_type<unsigned short>(rng); drive_type<short>(rng);
    drive_type<unsigned int>(rng);   drive_type<int>(rng);
    drive_type<unsigned long>(rng);  drive_type<long>(rng);
    drive_float(rng);
    drive_interleave(rng);
    gtx_integer(rng);
}
int main(int argc, char** argv) { return run_main(argc, argv, body); }
