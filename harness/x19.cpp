// X19 harness: colour encoding (gtx/color_encoding), gradient paint (gtx/gradient_paint), the laws between the saturation overloads
// (gtx/color_space), rgb2YCoCg / YCoCg2rgb on integer element types (gtx/color_space_YCoCg) and the overloads of the sRGB transfer
// curves (gtc/color_space) that C19 does not execute (vec1 / vec2 / vec4 in mediump and lowp, vec1 / vec2 with every gamma).
// argv: <trace-out> <tier> [section: all | enc | grad | sat | ycc | srgb]
// No expected values here: every call is logged with the raw bit patterns of its arguments and results; TLC judges
// (spec/trace/Trace_X19.tla).  Inputs: small integers, dyadics k * 2^e, one correctly rounded division n/d, the integer Rng.
// Random operands are bound to locals before any call.
#define VH_NO_EXT_ALL
#include "common.hpp"
#include <glm/gtc/color_space.hpp>
#include <glm/gtx/color_encoding.hpp>
#include <glm/gtx/gradient_paint.hpp>
#include <glm/gtx/color_space.hpp>
#include <glm/gtx/color_space_YCoCg.hpp>
#include <algorithm>
#include <cmath>
using namespace vh;

static bool g_thorough = false;
static const glm::qualifier QH = glm::highp, QM = glm::mediump, QL = glm::lowp;
template<glm::qualifier Q> const char* qname() { return Q == glm::highp ? "h" : (Q == glm::mediump ? "m" : "l"); }
#define EVQ(OP, T, L, Q) Ev(OP).str("t", TI<T>::code()).num("n", L).str("q", qname<Q>())

template<class T> T dy(long long k, int e) { return std::ldexp(T(k), e); }          // k * 2^e, exact for |k| < 2^24
template<class T> T rat(long long n, long long d) { return T(n) / T(d); }           // one correctly rounded division
template<class T> T unit_random(Rng& rng) { return T((long long)rng.below(1u << 24)) / T(1 << 24); }     // k / 2^24, exact in float
template<class T> T nudge(T x, int k) {                                             // k steps along the ordered line (x > 0)
    typedef typename std::conditional<sizeof(T) == 4, uint32_t, uint64_t>::type U;
    U b = U(to_bits(x)); b = U(b + U(k)); return from_bits<T>(b);
}
template<class T> T t_inf() { return std::numeric_limits<T>::infinity(); }
template<class T> T t_nan() { return std::numeric_limits<T>::quiet_NaN(); }

// ------------------------------------------------------------------ gtx/color_encoding
template<class T, glm::qualifier Q> void enc(T x, T y, T z, bool composed) {
    typedef glm::vec<3, T, Q> V;
    V c(x, y, z);
    V s65 = glm::convertLinearSRGBToD65XYZ(c);
    EVQ("enc", T, 3, Q).str("fn", "s65").arg(c).res(s65).emit();
    { V r = glm::convertLinearSRGBToD50XYZ(c); EVQ("enc", T, 3, Q).str("fn", "s50").arg(c).res(r).emit(); }
    V x2s = glm::convertD65XYZToLinearSRGB(c);
    EVQ("enc", T, 3, Q).str("fn", "x2s").arg(c).res(x2s).emit();
    { V r = glm::convertD65XYZToD50XYZ(c); EVQ("enc", T, 3, Q).str("fn", "b50").arg(c).res(r).emit(); }
    if (!composed) return;
    // composed laws: XYZ -> sRGB inverts sRGB -> XYZ (both orders); sRGB -> XYZ(D65) -> XYZ(D50) = sRGB -> XYZ(D50)
    { V z2 = glm::convertD65XYZToLinearSRGB(s65); EVQ("encRT", T, 3, Q).str("fn", "s65x2s").arg(c).val("y", s65).res(z2).emit(); }
    { V z2 = glm::convertLinearSRGBToD65XYZ(x2s); EVQ("encRT", T, 3, Q).str("fn", "x2ss65").arg(c).val("y", x2s).res(z2).emit(); }
    { V r = glm::convertD65XYZToD50XYZ(s65); V d = glm::convertLinearSRGBToD50XYZ(c);
      EVQ("encD50", T, 3, Q).arg(c).val("y", s65).val("z", d).res(r).emit(); }
}
template<class T> void enc_all(Rng& rng) {
    size_t cnt = 0;
    // the cube {0, 1/2, 1}^3 (greys, pure colours, secondaries), all three qualifiers
    for (int r = 0; r <= 2; ++r) for (int g = 0; g <= 2; ++g) for (int b = 0; b <= 2; ++b, ++cnt) {
        T x = dy<T>(r, -1), y = dy<T>(g, -1), z = dy<T>(b, -1);
        enc<T, QH>(x, y, z, true);
        if (cnt % 2 == 0) enc<T, QM>(x, y, z, cnt % 4 == 0);
        if (cnt % 3 == 0) enc<T, QL>(x, y, z, cnt % 6 == 0);
    }
    // pure colours and greys at several levels and scales
    for (int k = 1; k <= 8; ++k) for (int ch = 0; ch < 4; ++ch) {
        int sc = int(rng.below(g_thorough ? 25 : 9)) - (g_thorough ? 12 : 4);
        T v = dy<T>(k, sc - 3);
        enc<T, QH>(ch == 0 || ch == 3 ? v : T(0), ch == 1 || ch == 3 ? v : T(0), ch == 2 || ch == 3 ? v : T(0), k % 2 == 0);
    }
    // random colours of the unit cube, XYZ-like triples (white points, components above 1), negative components
    const int NR = g_thorough ? 1500 : 90;
    for (int i = 0; i < NR; ++i) {
        T x = unit_random<T>(rng), y = unit_random<T>(rng), z = unit_random<T>(rng);
        switch (i % 6) {
        case 0: case 1: enc<T, QH>(x, y, z, i % 4 == 0); break;
        case 2: enc<T, QH>(x * T(2), y, z * T(2) - T(1), false); break;
        case 3: enc<T, QM>(x, y, z, false); break;
        case 4: enc<T, QL>(x, y, z, false); break;
        default: { int sc = int(rng.below(31)) - 15; enc<T, QH>(std::ldexp(x, sc), std::ldexp(y, sc), -std::ldexp(z, sc), i % 12 == 5); }
        }
    }
    enc<T, QH>(rat<T>(9505, 10000), T(1), rat<T>(10890, 10000), true);          // D65 white
    enc<T, QH>(rat<T>(9642, 10000), T(1), rat<T>(8249, 10000), true);           // D50 white
    enc<T, QH>(rat<T>(4124, 10000), rat<T>(2126, 10000), rat<T>(193, 10000), true);      // XYZ of sRGB red
    enc<T, QH>(T(0), T(0), T(0), true);
    // outside the domain of the check
    enc<T, QH>(t_inf<T>(), T(1), T(0), true); enc<T, QH>(T(1), t_nan<T>(), T(0), false); enc<T, QH>(dy<T>(1, 70), T(1), T(1), false);
    enc<T, QH>(dy<T>(1, -100), T(0), T(0), false);
}

// ------------------------------------------------------------------ gtx/gradient_paint
template<class T, glm::qualifier Q> void lin(const T* p0_, const T* p1_, const T* pos_) {
    typedef glm::vec<2, T, Q> V;
    V p0(p0_[0], p0_[1]), p1(p1_[0], p1_[1]), pos(pos_[0], pos_[1]);
    T r = glm::linearGradient(p0, p1, pos);
    EVQ("linearGradient", T, 2, Q).arg(p0).arg(p1).arg(pos).res(r).emit();
}
template<class T, glm::qualifier Q> void rad(const T* c_, T R, const T* f_, const T* pos_) {
    typedef glm::vec<2, T, Q> V;
    V c(c_[0], c_[1]), f(f_[0], f_[1]), pos(pos_[0], pos_[1]);
    T r = glm::radialGradient(c, R, f, pos);
    EVQ("radialGradient", T, 2, Q).arg(c).arg(R).arg(f).arg(pos).res(r).emit();
}
template<class T> void rnd2(Rng& rng, T* d, int R, int sc) { for (int i = 0; i < 2; ++i) { long long m = (long long)rng.below(2 * R + 1) - R; d[i] = dy<T>(m, sc); } }
template<class T> void grad_all(Rng& rng) {
    const bool F = std::is_same<T, float>::value;
    T p0[2], p1[2], pos[2], c[2], f[2];
    uint64_t idx = 0;
    // ---- linearGradient: integer configurations (exact values at Point0, Point1, mid points, on perpendiculars), scaled by 2^sc
    const int P0[][2] = { {0, 0}, {1, 2}, {-3, 1} };
    const int DD[][2] = { {1, 0}, {0, 2}, {2, 2}, {-4, 0}, {3, 4}, {1, -2}, {-2, -3}, {5, 1}, {7, -24} };
    for (auto& a : P0) for (auto& d : DD) for (int x = -2; x <= 2; ++x) for (int y = -2; y <= 2; ++y) {
        if ((idx++) % (g_thorough ? 1 : 4) != 0) continue;
        int sc = int(rng.below(F ? 13 : 41)) - (F ? 6 : 20);
        p0[0] = dy<T>(a[0], sc); p0[1] = dy<T>(a[1], sc); p1[0] = dy<T>(a[0] + d[0], sc); p1[1] = dy<T>(a[1] + d[1], sc);
        pos[0] = dy<T>(a[0] + x, sc); pos[1] = dy<T>(a[1] + y, sc);
        if (idx % 7 == 0) lin<T, QL>(p0, p1, pos); else if (idx % 7 == 1) lin<T, QM>(p0, p1, pos); else lin<T, QH>(p0, p1, pos);
        if (idx % 5 == 0) { lin<T, QH>(p0, p1, p0); lin<T, QH>(p0, p1, p1); }                                              // 0 and 1
        if (idx % 5 == 1) { pos[0] = dy<T>(2 * a[0] + d[0] - 3 * d[1], sc - 1); pos[1] = dy<T>(2 * a[1] + d[1] + 3 * d[0], sc - 1); lin<T, QH>(p0, p1, pos); }   // mid point + perpendicular offset
        if (idx % 5 == 2) { pos[0] = dy<T>(a[0] + 3 * d[0], sc); pos[1] = dy<T>(a[1] + 3 * d[1], sc); lin<T, QH>(p0, p1, pos); }                                 // beyond Point1: 3
    }
    // random dyadic points at a random scale; positions far from the segment; nearly coincident end points
    for (int it = 0; it < (g_thorough ? 3000 : 300); ++it) {
        int sc = int(rng.below(F ? 21 : 81)) - (F ? 16 : 50);
        rnd2(rng, p0, 1000, sc); rnd2(rng, p1, 1000, sc); rnd2(rng, pos, 1000, sc);
        if (it % 7 == 3) rnd2(rng, pos, 1000, sc + 6);
        if (it % 7 == 4) { p1[0] = nudge(p0[0] == T(0) ? dy<T>(1, sc) : p0[0], int(rng.below(9)) - 4); p1[1] = p0[1]; }
        if (it % 7 == 5) { p1[0] = p0[0] + dy<T>(1, sc - 3); p1[1] = p0[1] - dy<T>(3, sc - 3); }
        if (it % 9 == 0) lin<T, QM>(p0, p1, pos); else if (it % 9 == 1) lin<T, QL>(p0, p1, pos); else lin<T, QH>(p0, p1, pos);
    }
    // outside the domain: Point0 = Point1, non-finite, huge / tiny components
    rnd2(rng, p0, 9, 0); rnd2(rng, pos, 9, 0);
    lin<T, QH>(p0, p0, pos);
    p1[0] = t_inf<T>(); p1[1] = T(1); lin<T, QH>(p0, p1, pos); p1[0] = t_nan<T>(); lin<T, QH>(p0, p1, pos);
    p1[0] = dy<T>(1, 70); lin<T, QH>(p0, p1, pos); p1[0] = dy<T>(1, -90); lin<T, QH>(p0, p1, pos);

    // ---- radialGradient: focal point = centre, Pythagorean offsets: |D| / R exactly
    const int PY[][3] = { {3, 4, 5}, {-4, 3, 5}, {5, 12, 13}, {-12, -5, 13}, {8, -15, 17}, {0, 1, 1}, {-1, 0, 1}, {7, 24, 25}, {20, 21, 29} };
    idx = 0;
    for (auto& py : PY) for (int m = 0; m <= 3; ++m) for (int rr = 1; rr <= 3; ++rr) {
        if ((idx++) % (g_thorough ? 1 : 3) != 0) continue;
        int sc = int(rng.below(F ? 11 : 31)) - (F ? 5 : 15);
        rnd2(rng, c, 6, sc); f[0] = c[0]; f[1] = c[1];
        T R = dy<T>(py[2] * rr, sc);
        pos[0] = c[0] + dy<T>(py[0] * m, sc); pos[1] = c[1] + dy<T>(py[1] * m, sc);
        if (idx % 6 == 0) rad<T, QL>(c, R, f, pos); else if (idx % 6 == 1) rad<T, QM>(c, R, f, pos); else rad<T, QH>(c, R, f, pos);
    }
    // focal point off centre, integer configurations with rational roots: centre 0, R = 5, focal (3, 0): (3, 4) -> 1, (3, 2) -> 1/2, (5, 0) -> 1 ...
    const int RC[][5] = { {0, 0, 5, 3, 0}, {0, 0, 5, 0, -4}, {1, -2, 10, 7, -2}, {0, 0, 13, 5, 0}, {-1, 1, 5, 1, 2}, {0, 0, 4, -2, 2}, {0, 0, 25, 7, 0}, {2, 2, 17, 10, 2} };
    for (auto& rc : RC) for (int x = -3; x <= 3; ++x) for (int y = -3; y <= 3; ++y) {
        if ((idx++) % (g_thorough ? 1 : 4) != 0) continue;
        int sc = int(rng.below(F ? 11 : 31)) - (F ? 5 : 15);
        c[0] = dy<T>(rc[0], sc); c[1] = dy<T>(rc[1], sc); f[0] = dy<T>(rc[3], sc); f[1] = dy<T>(rc[4], sc);
        T R = dy<T>(rc[2], sc);
        pos[0] = dy<T>(rc[3] + x, sc); pos[1] = dy<T>(rc[4] + y, sc);
        rad<T, QH>(c, R, f, pos);
        if (idx % 8 == 0) { pos[0] = dy<T>(rc[3] + 2 * x, sc); pos[1] = dy<T>(rc[4] + 2 * y, sc); rad<T, QH>(c, R, f, pos); }          // doubled offset
    }
    // points of the circle seen from an off-centre focal point: exactly 1 (centre 0, R = 5 m, points (+-3m, +-4m), (+-4m, +-3m), (+-5m, 0))
    for (int m = 1; m <= (g_thorough ? 8 : 3); ++m) for (int k = 0; k < 10; ++k) {
        const int CP[][2] = { {3, 4}, {-3, 4}, {3, -4}, {-3, -4}, {4, 3}, {-4, 3}, {4, -3}, {-4, -3}, {5, 0}, {0, -5} };
        int sc = int(rng.below(9)) - 4;
        c[0] = T(0); c[1] = T(0); T R = dy<T>(5 * m, sc);
        long long fx = (long long)rng.below(6 * m + 1) - 3 * m, fy = (long long)rng.below(6 * m + 1) - 3 * m;     // |F| <= 4.25 m < 5 m
        f[0] = dy<T>(fx, sc); f[1] = dy<T>(fy, sc);
        pos[0] = dy<T>(CP[k][0] * m, sc); pos[1] = dy<T>(CP[k][1] * m, sc);
        rad<T, QH>(c, R, f, pos);
    }
    // random: focal = centre + R (a, b) / 16 with a^2 + b^2 <= 200 (|F| <= 0.89 R), or close to the admitted limit (a^2 + b^2 = 245 .. 250 of 256)
    for (int it = 0; it < (g_thorough ? 3000 : 300); ++it) {
        int sc = int(rng.below(F ? 17 : 61)) - (F ? 12 : 40);
        rnd2(rng, c, 500, sc);
        long long rr = (long long)rng.below(2000) + 1;
        T R = dy<T>(rr * 16, sc);
        long long a, b;
        if (it % 5 == 4) { const int NE[][2] = { {15, 5}, {-14, 7}, {11, -11}, {9, 13}, {-15, -4}, {3, 15}, {-7, -14} }; a = NE[it % 7][0]; b = NE[it % 7][1]; }
        else do { a = (long long)rng.below(29) - 14; b = (long long)rng.below(29) - 14; } while (a * a + b * b > 200);
        f[0] = c[0] + dy<T>(rr * a, sc); f[1] = c[1] + dy<T>(rr * b, sc);
        rnd2(rng, pos, 40000, sc);
        if (it % 6 == 0) { T t = dy<T>((long long)rng.below(64) + 1, -4); pos[0] = f[0] - (f[0] - c[0]) * t; pos[1] = f[1] - (f[1] - c[1]) * t; }      // opposite to F: cancellation in B + sqrt
        if (it % 6 == 1) { T t = dy<T>((long long)rng.below(64) + 1, -4); pos[0] = f[0] - (f[1] - c[1]) * t; pos[1] = f[1] + (f[0] - c[0]) * t; }      // perpendicular to F
        if (it % 6 == 2) { T t = dy<T>((long long)rng.below(64) + 1, -12); pos[0] = f[0] + dy<T>(rr, sc) * t; pos[1] = f[1]; }                         // close to the focal point
        if (it % 25 == 7) { pos[0] = f[0]; pos[1] = f[1]; }                                                                                           // at the focal point: 0
        if (it % 9 == 0) rad<T, QM>(c, R, f, pos); else if (it % 9 == 1) rad<T, QL>(c, R, f, pos); else rad<T, QH>(c, R, f, pos);
    }
    // outside the domain: focal point on / outside / too close to the circle, radius <= 0, non-finite
    c[0] = T(0); c[1] = T(0); pos[0] = T(1); pos[1] = T(2);
    f[0] = T(5); f[1] = T(0); rad<T, QH>(c, T(5), f, pos); f[0] = T(7); rad<T, QH>(c, T(5), f, pos);
    f[0] = rat<T>(499, 100); rad<T, QH>(c, T(5), f, pos);
    f[0] = T(1); rad<T, QH>(c, T(0), f, pos); rad<T, QH>(c, T(-5), f, pos);
    rad<T, QH>(c, t_inf<T>(), f, pos); f[1] = t_nan<T>(); rad<T, QH>(c, T(5), f, pos); f[1] = T(0); pos[0] = dy<T>(1, 80); rad<T, QH>(c, T(5), f, pos);
}

// ------------------------------------------------------------------ gtx/color_space: saturation overloads against each other
template<class T, glm::qualifier Q> void sat_law(T s, T r, T g, T b, T a) {
    glm::mat<4, 4, T, glm::defaultp> m = glm::saturation(s);
    glm::vec<4, T, Q> c4(r, g, b, a);
    glm::vec<3, T, Q> c3(r, g, b);
    glm::vec<4, T, Q> f4 = glm::saturation(s, c4);
    glm::vec<3, T, Q> f3 = glm::saturation(s, c3);
    glm::vec<4, T, glm::defaultp> cd(r, g, b, a);
    glm::vec<4, T, glm::defaultp> mv = m * cd;
    EVQ("satLaw", T, 4, Q).arg(s).arg(c4).val("m", m).val("f4", f4).val("f3", f3).val("mv", mv).emit();
}
template<class T> void sat_all(Rng& rng) {
    std::vector<T> ss;
    const T s0[] = { T(0), T(1), rat<T>(1, 2), rat<T>(1, 4), T(2), T(-1), rat<T>(3, 2), rat<T>(1, 10), rat<T>(9, 10), T(3), rat<T>(-1, 2) };
    for (T s : s0) ss.push_back(s);
    for (int i = 0; i < (g_thorough ? 30 : 3); ++i) ss.push_back(unit_random<T>(rng) * T(2));
    size_t cnt = 0;
    for (T s : ss) {
        for (int g = 0; g <= 4; ++g) { T v = rat<T>(g, 4); sat_law<T, QH>(s, v, v, v, unit_random<T>(rng)); }                       // greys
        for (int r = 0; r <= 2; ++r) for (int g = 0; g <= 2; ++g) for (int b = 0; b <= 2; ++b, ++cnt) {
            if (!g_thorough && cnt % 2) continue;
            T a = dy<T>((long long)rng.below(33) - 8, -4);
            if (cnt % 4 == 0) sat_law<T, QM>(s, dy<T>(r, -1), dy<T>(g, -1), dy<T>(b, -1), a);
            else if (cnt % 4 == 2) sat_law<T, QL>(s, dy<T>(r, -1), dy<T>(g, -1), dy<T>(b, -1), a);
            else sat_law<T, QH>(s, dy<T>(r, -1), dy<T>(g, -1), dy<T>(b, -1), a);
        }
        for (int i = 0; i < (g_thorough ? 60 : 6); ++i) {
            T r = unit_random<T>(rng), g = unit_random<T>(rng), b = unit_random<T>(rng), a = unit_random<T>(rng);
            if (i % 3 == 2) { r = r * T(255); g = g * T(255); b = -b; }
            sat_law<T, QH>(s, r, g, b, a);
        }
    }
    sat_law<T, QH>(t_inf<T>(), T(1), T(0), T(0), T(1)); sat_law<T, QH>(T(1), t_nan<T>(), T(0), T(0), T(1)); sat_law<T, QH>(dy<T>(1, 40), T(1), T(0), T(0), T(1));
}

// ------------------------------------------------------------------ gtx/color_space_YCoCg on integer element types
template<class T, glm::qualifier Q> void ycc_fwd(long long r, long long g, long long b) {
    glm::vec<3, T, Q> c{ T(r), T(g), T(b) };
    glm::vec<3, T, Q> y = glm::rgb2YCoCg(c);
    EVQ("rgb2YCoCgI", T, 3, Q).arg(c).res(y).emit();
    glm::vec<3, T, Q> back = glm::YCoCg2rgb(y);
    EVQ("ycocgIRT", T, 3, Q).arg(c).val("y", y).res(back).emit();
}
template<class T, glm::qualifier Q> void ycc_inv(long long y, long long co, long long cg) {
    glm::vec<3, T, Q> c{ T(y), T(co), T(cg) };
    glm::vec<3, T, Q> r = glm::YCoCg2rgb(c);
    EVQ("YCoCg2rgbI", T, 3, Q).arg(c).res(r).emit();
}
template<class T> void ycc_type(Rng& rng) {
    const bool sg = std::numeric_limits<T>::is_signed;
    const int W = int(sizeof(T) * 8);
    // largest multiple of four used; signed 32 / 64 bit types stay below 2^(W-3) so that no partial sum of the calls overflows (undefined behaviour)
    const long long hi = sg ? (W >= 32 ? (1ll << (W - 3)) : (1ll << (W - 1)) - 4) : (W >= 63 ? (1ll << 61) : (1ll << W) - 4);
    std::vector<long long> v = { 0, 4, 8, 12, 64, 100, 124, 128, 252 };
    if (W == 8 && sg) v = { 0, 4, 8, 12, 64, 100, 124 };
    if (W > 8) { v.push_back(256); v.push_back(1020); v.push_back(hi); v.push_back(hi / 2 - (hi / 2) % 4); }
    if (sg) { size_t n = v.size(); for (size_t i = 1; i < n; ++i) v.push_back(-v[i]); }
    size_t cnt = 0;
    for (long long r : v) for (long long g : v) for (long long b : v) {
        ++cnt;
        if (cnt % (g_thorough ? 8 : 40) != 0 && !(r == g && g == b)) continue;
        if (cnt % 5 == 0) ycc_fwd<T, QM>(r, g, b); else if (cnt % 5 == 1) ycc_fwd<T, QL>(r, g, b); else ycc_fwd<T, QH>(r, g, b);
        // an arbitrary (Y, Co, Cg) triple for the inverse: luma in the value range, chroma small
        if (cnt % 3 == 0) ycc_inv<T, QH>(r, sg ? (g - b) / 2 : g / 2, sg ? (b - r) / 4 : b / 4);
    }
    // 8-bit colours (every element type holds them when unsigned or wider than 8 bits), multiples of four and others
    for (int i = 0; i < (g_thorough ? 600 : 60); ++i) {
        long long lim = (W == 8 && sg) ? 128 : 256;
        long long r = (long long)rng.below(lim), g = (long long)rng.below(lim), b = (long long)rng.below(lim);
        if (i % 4 != 3) { r &= ~3ll; g &= ~3ll; b &= ~3ll; }
        if (sg && i % 5 == 0) { r = -r; b = -b; }
        ycc_fwd<T, QH>(r, g, b);
        ycc_inv<T, QH>(r, sg ? g - lim / 2 : g / 4, sg ? (b - lim / 2) / 2 : b / 4);
    }
}
static void ycc_all(Rng& rng) {
    ycc_type<glm::int8>(rng); ycc_type<glm::uint8>(rng); ycc_type<glm::int16>(rng); ycc_type<glm::uint16>(rng);
    ycc_type<glm::int32>(rng); ycc_type<glm::uint32>(rng); ycc_type<glm::int64>(rng); ycc_type<glm::uint64>(rng);
}

// ------------------------------------------------------------------ gtc/color_space: the overloads C19 does not execute
static const int GAMMAS[6][2] = { {12, 5}, {11, 5}, {1, 1}, {2, 1}, {3, 1}, {3, 2} };
template<class T> std::vector<T> srgb_points(int N, int nrand, Rng& rng) {
    std::vector<T> p;
    for (int i = 0; i <= N; ++i) p.push_back(rat<T>(i, N));
    const T knees[2] = { static_cast<T>(0.0031308), static_cast<T>(0.04045) };
    for (T k : knees) for (int d = -2; d <= 2; ++d) p.push_back(nudge(k, d));
    for (T k : knees) for (int e = 3; e <= 15; e += 4) { p.push_back(k + k * dy<T>(1, -e)); p.push_back(k - k * dy<T>(1, -e - 1)); }
    for (int e = 1; e <= 24; e += 3) { p.push_back(dy<T>(1, -e)); p.push_back(dy<T>(3, -e - 2)); }
    p.push_back(std::numeric_limits<T>::denorm_min()); p.push_back(nudge(T(1), -1));
    for (int i = 1; i <= 10; ++i) { p.push_back(rat<T>(i, 160)); p.push_back(rat<T>(i, 2500)); }
    for (int i = 0; i < nrand; ++i) { T u = unit_random<T>(rng); p.push_back(i % 3 == 0 ? u : (i % 3 == 1 ? u / T(16) : u * u)); }
    std::sort(p.begin(), p.end());
    p.erase(std::unique(p.begin(), p.end()), p.end());
    return p;
}
static const uint32_t ALPHA32[] = { 0x3f000000u, 0x00000000u, 0x80000000u, 0x3f800000u, 0x7f800000u, 0xff800000u, 0x7fc00000u, 0xc2f6e979u,
                                    0x00000001u, 0x3b4d2e1cu, 0x3d25aee6u, 0x40490fdbu, 0xbf000000u, 0x7f7fffffu, 0x00800000u, 0x12345678u };
static const uint64_t ALPHA64[] = { 0x3fe0000000000000ull, 0x8000000000000000ull, 0x7ff0000000000000ull, 0x7ff8000000000000ull,
                                    0x3fa4b5dcc63f1412ull, 0xc05edd2f1a9fbe77ull, 0x0000000000000001ull, 0x3f69a5c37387b719ull };
template<class T> T alpha_of(size_t i) { if constexpr (sizeof(T) == 4) return from_bits<T>(ALPHA32[i % 16]); else return from_bits<T>(ALPHA64[i % 8]); }
template<int L, class T, glm::qualifier Q> glm::vec<L, T, Q> window(std::vector<T> const& p, size_t i, size_t salt) {
    glm::vec<L, T, Q> v;
    for (int c = 0; c < L; ++c) v[c] = p[(i + size_t(c)) % p.size()];
    if constexpr (L == 4) v[3] = alpha_of<T>(i + salt);
    return v;
}
template<int L, class T, glm::qualifier Q> void srgb_values(glm::vec<L, T, Q> const& x, int g0, int g1) {
    { auto r = glm::convertLinearToSRGB(x); EVQ("l2s", T, L, Q).num("gp", 0).num("gq", 0).arg(x).res(r).emit(); }
    { auto r = glm::convertSRGBToLinear(x); EVQ("s2l", T, L, Q).num("gp", 0).num("gq", 0).arg(x).res(r).emit(); }
    for (int k = g0; k < g1; ++k) {
        T g = rat<T>(GAMMAS[k][0], GAMMAS[k][1]);
        { auto r = glm::convertLinearToSRGB(x, g); EVQ("l2s", T, L, Q).num("gp", GAMMAS[k][0]).num("gq", GAMMAS[k][1]).arg(x).arg(g).res(r).emit(); }
        { auto r = glm::convertSRGBToLinear(x, g); EVQ("s2l", T, L, Q).num("gp", GAMMAS[k][0]).num("gq", GAMMAS[k][1]).arg(x).arg(g).res(r).emit(); }
    }
}
// vec4: the same colour with two different alpha patterns - the colour part of the result may not depend on alpha, alpha passes untouched
template<class T, glm::qualifier Q> void srgb_alpha(glm::vec<4, T, Q> x, size_t i, int k) {
    glm::vec<4, T, Q> x2 = x; x2[3] = alpha_of<T>(i + 5);
    T g = rat<T>(GAMMAS[k][0], GAMMAS[k][1]);
    { auto r1 = glm::convertLinearToSRGB(x); auto r2 = glm::convertLinearToSRGB(x2); EVQ("srgbAlpha", T, 4, Q).str("d", "l2s").arg(x).arg(x2).val("r1", r1).val("r2", r2).emit(); }
    { auto r1 = glm::convertSRGBToLinear(x, g); auto r2 = glm::convertSRGBToLinear(x2, g); EVQ("srgbAlpha", T, 4, Q).str("d", "s2l").arg(x).arg(x2).val("r1", r1).val("r2", r2).emit(); }
}
template<class T> void srgb_all(Rng& rng) {
    const bool f = sizeof(T) == 4;
    std::vector<T> p = srgb_points<T>(g_thorough ? (f ? 128 : 48) : (f ? 24 : 10), g_thorough ? 300 : 24, rng);
    const size_t n = p.size();
    size_t w = 0;
    for (size_t i = 0; i + 1 < n; i += 2, ++w) {
        int g0 = int(w % 3) * 2;                                   // two of the six explicit gammas per window, all of them over three windows
        switch (w % 6) {
        case 0: srgb_values(window<1, T, QM>(p, i, 0), g0, g0 + 2); break;
        case 1: srgb_values(window<2, T, QM>(p, i, 0), g0, g0 + 2); break;
        case 2: srgb_values(window<1, T, QL>(p, i, 0), g0, g0 + 2); break;
        case 3: srgb_values(window<2, T, QL>(p, i, 0), g0, g0 + 2); break;
        case 4: srgb_values(window<1, T, QH>(p, i, 0), 2, 6); break;                 // C19 runs vec1 / vec2 highp with 12/5 and 11/5 only
        default: srgb_values(window<2, T, QH>(p, i, 0), 2, 6); break;
        }
    }
    for (size_t i = 0; i + 2 < n; i += (g_thorough ? 3 : 7), ++w) {
        int g0 = int(w % 3) * 2;
        if (w % 2) srgb_values(window<4, T, QM>(p, i, w), g0, g0 + 2); else srgb_values(window<4, T, QL>(p, i, w), g0, g0 + 2);
        if (w % 3 == 0) srgb_alpha(window<4, T, QH>(p, i, w), i, int(w % 6));
        if (w % 3 == 1) srgb_alpha(window<4, T, QM>(p, i, w), i, int(w % 6));
        if (w % 3 == 2) srgb_alpha(window<4, T, QL>(p, i, w), i, int(w % 6));
    }
}

static void body(int argc, char** argv) {
    g_thorough = argc > 2 && std::string(argv[2]) == "thorough";
    const std::string sec = argc > 3 ? argv[3] : "all";
    auto on = [&](const char* s) { return sec == "all" || sec == s; };
    uint64_t seed = seed_from_env();
    if (on("enc")) { Rng r(seed * 37 + 1); enc_all<float>(r); enc_all<double>(r); }
    if (on("grad")) { Rng r(seed * 37 + 2); grad_all<float>(r); grad_all<double>(r); }
    if (on("sat")) { Rng r(seed * 37 + 3); sat_all<float>(r); sat_all<double>(r); }
    if (on("ycc")) { Rng r(seed * 37 + 4); ycc_all(r); }
    if (on("srgb")) { Rng r(seed * 37 + 5); srgb_all<float>(r); srgb_all<double>(r); }
    std::printf("EVENTS %llu\n", (unsigned long long)out().events);
}
int main(int argc, char** argv) { return run_main(argc, argv, body); }
