// X02 compile probes: documented call forms that must compile.  The driver compiles this file with -fsyntax-only once per
// probe (-DX02_PROBE=n) against the tree under test and logs {"op":"probe","name":...,"ok":0|1} events; nothing is executed.
#define GLM_ENABLE_EXPERIMENTAL
#include <glm/glm.hpp>
#include <glm/ext/matrix_common.hpp>
#if X02_PROBE == 1
// ext/matrix_common.hpp declares, for every C and R:
//   template<length_t C, length_t R, typename T, typename U, qualifier Q> mat<C, R, T, Q> mix(mat<C, R, T, Q> const& x, mat<C, R, T, Q> const& y, mat<C, R, U, Q> const& a);
glm::mat2x3 probe_a(glm::mat2x3 const& x, glm::mat2x3 const& y, glm::mat2x3 const& a) { return glm::mix(x, y, a); }
glm::dmat4x2 probe_b(glm::dmat4x2 const& x, glm::dmat4x2 const& y, glm::dmat4x2 const& a) { return glm::mix(x, y, a); }
#elif X02_PROBE == 2
// control probes: the same overload on the square shapes, the scalar-weight overload on a non-square shape
glm::mat3 probe_a(glm::mat3 const& x, glm::mat3 const& y, glm::mat3 const& a) { return glm::mix(x, y, a); }
glm::mat2x3 probe_b(glm::mat2x3 const& x, glm::mat2x3 const& y, float a) { return glm::mix(x, y, a); }
glm::dmat4x2 probe_c(glm::dmat4x2 const& x) { return glm::abs(x); }
#elif X02_PROBE == 3
// the generic queries and the factorisations on non-square shapes, determinant of a sized integer matrix
#include <glm/gtx/matrix_query.hpp>
#include <glm/gtx/matrix_factorisation.hpp>
#include <glm/ext/matrix_integer.hpp>
#include <glm/ext/matrix_int3x3_sized.hpp>
bool probe_a(glm::mat4x2 const& m) { return glm::isIdentity(m, 0.1f) || glm::isOrthogonal(m, 0.1f); }
void probe_b(glm::dmat4x2 const& m, glm::dmat2x2& q, glm::dmat4x2& r) { glm::qr_decompose(m, q, r); }
void probe_c(glm::dmat2x4 const& m, glm::dmat2x4& r, glm::dmat2x2& q) { glm::rq_decompose(m, r, q); }
glm::int8 probe_d(glm::i8mat3x3 const& m) { return glm::determinant(m); }
#endif
