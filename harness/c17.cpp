// C17 harness, shared part: swizzles and constructors select and place exactly the named components.
//
// This file holds the plumbing (tag values as bit patterns, tagged vectors / matrices / quaternions
// filled component by component through operator[] / member access, event writers) and the few
// hand-written event families (quaternion constructors, swizzle-argument constructors).  The bulk of
// the events - one per swizzle accessor, per writable accessor assignment, per constructor signature -
// is *generated*: TLC enumerates the names and argument-shape compositions (MC_C17 -> IOEnv.OUT), and
// gen/gen_c17.py turns every line into C++ source text.  The generated translation unit (in the scratch
// directory) is
//        #define C17_CFG "<configuration>"
//        #include "c17.cpp"
//        #include "<batch>.inc" ...            (one batch per (implementation, source length, result length, letter set) ...)
//        void c17_generated() { run_<batch>(); ... }
// Compiled on its own (no C17_CFG) this file is a complete program that logs only the hand-written events.
//
// No expected values and no judging here: every event logs the raw argument and result bit patterns,
// the TLA+ trace specification Trace_C17 decides.
// argv: <trace-out>
#ifndef VH_NO_EXT_ALL
#define VH_NO_EXT_ALL
#endif
#include "common.hpp"
#include <glm/gtx/vec_swizzle.hpp>
#include <csetjmp>
#include <csignal>
using namespace vh;

#ifdef C17_CFG
#define C17_CFGNAME C17_CFG
#else
#define C17_CFGNAME "plain"
#endif

namespace c17 {

// ---------------------------------------------------------------- tag values (16 per element type, bit patterns)
// Index k of every table is a different value, the first four are non-zero and have pairwise different
// integer parts, so a misplaced component is visible before and after a static_cast; the later entries
// exercise truncation toward zero, narrowing modulo 2^W, inexact int->float and double->float conversions.
template<class T> struct TagTab;
template<> struct TagTab<float> { static uint64_t at(int i) { static const uint64_t v[16] = {   // 1.75 -2.5 300.25 7.5 -0.75 65537.5 3 -1 127.9 255.5 -128.5 0.001 2147483520 16777216 -0 42
    0x3fe00000u, 0xc0200000u, 0x43962000u, 0x40f00000u, 0xbf400000u, 0x478000c0u, 0x40400000u, 0xbf800000u,
    0x42ffcccdu, 0x437f8000u, 0xc3008000u, 0x3a83126fu, 0x4effffffu, 0x4b800000u, 0x80000000u, 0x42280000u }; return v[i & 15]; } };
template<> struct TagTab<double> { static uint64_t at(int i) { static const uint64_t v[16] = {  // 1.75 -2.5 300.25 7.5 -0.75 65537.5 3 -1 0.1 255.99 -128.5 1e10 2147483647 16777217 -0 4294967295
    0x3ffc000000000000ull, 0xc004000000000000ull, 0x4072c40000000000ull, 0x401e000000000000ull, 0xbfe8000000000000ull, 0x40f0001800000000ull,
    0x4008000000000000ull, 0xbff0000000000000ull, 0x3fb999999999999aull, 0x406fffae147ae148ull, 0xc060100000000000ull, 0x4202a05f20000000ull,
    0x41dfffffffc00000ull, 0x4170000010000000ull, 0x8000000000000000ull, 0x41efffffffe00000ull }; return v[i & 15]; } };
template<> struct TagTab<int> { static uint64_t at(int i) { static const uint64_t v[16] = {     // 11 -22 300 33 65537 -1 16777217 INT_MAX INT_MIN 0 44 55 255 256 -129 70000
    11u, 0xffffffeau, 300u, 33u, 65537u, 0xffffffffu, 16777217u, 0x7fffffffu, 0x80000000u, 0u, 44u, 55u, 255u, 256u, 0xffffff7fu, 70000u }; return v[i & 15]; } };
template<> struct TagTab<unsigned int> { static uint64_t at(int i) { static const uint64_t v[16] = {
    11u, 22u, 300u, 0xffffffffu, 0x80000000u, 65536u, 16777217u, 0u, 33u, 44u, 55u, 66u, 77u, 255u, 256u, 4000000000u }; return v[i & 15]; } };
template<> struct TagTab<short> { static uint64_t at(int i) { static const uint64_t v[16] = {   // 11 -22 300 33 -32768 32767 0 -1 44 55 255 256 -129 77 88 99
    11u, 0xffeau, 300u, 33u, 0x8000u, 0x7fffu, 0u, 0xffffu, 44u, 55u, 255u, 256u, 0xff7fu, 77u, 88u, 99u }; return v[i & 15]; } };
template<> struct TagTab<unsigned char> { static uint64_t at(int i) { static const uint64_t v[16] = {
    11u, 22u, 200u, 255u, 0u, 1u, 128u, 33u, 44u, 55u, 66u, 77u, 88u, 99u, 111u, 122u }; return v[i & 15]; } };
template<> struct TagTab<long long> { static uint64_t at(int i) { static const uint64_t v[16] = {   // 11 -22 300 33 2^32+5 -(2^53+1) INT64_MAX INT64_MIN 0 -1 2^24+1 -129 255 256 2^31 70000
    11ull, 0xffffffffffffffeaull, 300ull, 33ull, 0x100000005ull, 0xffdfffffffffffffull, 0x7fffffffffffffffull, 0x8000000000000000ull,
    0ull, 0xffffffffffffffffull, 16777217ull, 0xffffffffffffff7full, 255ull, 256ull, 0x80000000ull, 70000ull }; return v[i & 15]; } };
template<> struct TagTab<unsigned long long> { static uint64_t at(int i) { static const uint64_t v[16] = {
    11ull, 22ull, 300ull, 0xffffffffffffffffull, 0x8000000000000000ull, 0x100000005ull, 0x20000000000001ull, 0ull,
    33ull, 44ull, 16777217ull, 66ull, 255ull, 256ull, 0x80000000ull, 70000ull }; return v[i & 15]; } };
template<> struct TagTab<bool> { static uint64_t at(int i) { static const uint64_t v[16] = { 1, 0, 1, 1, 0, 0, 1, 0, 1, 1, 1, 0, 0, 1, 0, 0 }; return v[i & 15]; } };

template<class T> inline T tag(int i) { return from_bits<T>(TagTab<T>::at(i)); }
template<class T> inline const char* code() { return TI<T>::code(); }

// an object placed at the least alignment its type guarantees: address = alignof(V) modulo 64
template<class V> struct MinAligned {
    alignas(64) unsigned char buf[64 + sizeof(V)];
    explicit MinAligned(V const& v) { std::memcpy(buf + alignof(V), &v, sizeof(V)); }
    V const& ref() const { return *reinterpret_cast<V const*>(buf + alignof(V)); }
};
// tagged values, written component by component (never through the constructors under test)
template<int L, class T, glm::qualifier Q> inline glm::vec<L, T, Q> tagvec(int off) {
    glm::vec<L, T, Q> v;
    std::memset(static_cast<void*>(&v), 0xA5, sizeof v);       // padding lanes of aligned types hold a poison pattern, never a copy of a component
    for (int i = 0; i < L; ++i) v[i] = tag<T>(off + i);
    return v;
}
template<int C, int R, class T, glm::qualifier Q> inline glm::mat<C, R, T, Q> tagmat(int off) {
    glm::mat<C, R, T, Q> m;
    std::memset(static_cast<void*>(&m), 0xA5, sizeof m);
    for (int c = 0; c < C; ++c) for (int r = 0; r < R; ++r) m[c][r] = tag<T>(off + c * R + r);
    return m;
}
template<class T, glm::qualifier Q> inline glm::qua<T, Q> tagqua(int off) {      // tag order w, x, y, z (the order of the log)
    glm::qua<T, Q> q;
    q.w = tag<T>(off); q.x = tag<T>(off + 1); q.y = tag<T>(off + 2); q.z = tag<T>(off + 3);
    return q;
}

// ---------------------------------------------------------------- event writers
inline void raw(Ev& e, const char* k, const char* json) { e.close_args(); e.s += ",\""; e.s += k; e.s += "\":"; e.s += json; }

// swizzle read: impl = fn | op | free, nm = JSON list of the letters of the accessor name
template<class T, class V, class R>
inline void swz(const char* impl, const char* q, const char* set, const char* nm, V const& v, R const& r) {
    Ev e("swz"); e.str("cfg", C17_CFGNAME).str("impl", impl).str("t", code<T>()).str("q", q).str("set", set); raw(e, "nm", nm); e.arg(v).res(r).emit();
}
// swizzle assignment: op = swzw (vector assigned), swzf (one scalar assigned); before / after = whole destination
template<class T, class V, class W>
inline void swzw(const char* op, const char* q, const char* set, const char* nm, V const& before, W const& val, V const& after) {
    Ev e(op); e.str("cfg", C17_CFGNAME).str("impl", "op").str("t", code<T>()).str("q", q).str("set", set); raw(e, "nm", nm); e.arg(before).arg(val).res(after).emit();
}

// a GLM call that faults (SIGSEGV / SIGBUS) is logged as an event instead of killing the harness
inline sigjmp_buf& fault_jmp() { static sigjmp_buf b; return b; }
inline void on_fault(int sig) { siglongjmp(fault_jmp(), sig); }
template<class F, class G> inline void guarded(F&& run, G&& crashed) {
    struct sigaction sa, o1, o2;
    std::memset(&sa, 0, sizeof sa); sa.sa_handler = on_fault; sigemptyset(&sa.sa_mask); sa.sa_flags = SA_NODEFER;
    sigaction(SIGSEGV, &sa, &o1); sigaction(SIGBUS, &sa, &o2);
    int const sig = sigsetjmp(fault_jmp(), 1);
    if (sig == 0) run(); else crashed(sig);
    sigaction(SIGSEGV, &o1, nullptr); sigaction(SIGBUS, &o2, nullptr);
}
// the read of accessor nm of v (at address a16 modulo 16) raised signal sig
template<class T, class V>
inline void swzcrash(const char* q, const char* set, const char* nm, V const& v, long long a16, int sig) {
    Ev e("swzcrash"); e.str("cfg", C17_CFGNAME).str("impl", "op").str("t", code<T>()).str("q", q).str("set", set); raw(e, "nm", nm);
    e.num("addr16", a16).num("sig", sig).arg(v).emit();
}

// ---------------------------------------------------------------- quaternion constructors (called by the generated code, one call per MC_C17 "qua" line)
template<class T, glm::qualifier Q> void qua_wxyz(const char* q) {
    T const a0 = tag<T>(0), a1 = tag<T>(1), a2 = tag<T>(2), a3 = tag<T>(3);
    glm::qua<T, Q> const r(a0, a1, a2, a3);
#ifdef GLM_FORCE_QUAT_DATA_XYZW
    const char* kind = "xyzw";          // this configuration declares qua(T x, T y, T z, T w)
#else
    const char* kind = "wxyz";
#endif
    Ev e("cqua"); e.str("cfg", C17_CFGNAME).str("kind", kind).str("t", code<T>()).str("q", q); raw(e, "at", (std::string("[\"") + code<T>() + "\",\"" + code<T>() + "\",\"" + code<T>() + "\",\"" + code<T>() + "\"]").c_str());
    e.arg(a0).arg(a1).arg(a2).arg(a3).res(r).emit();
}
template<class T, glm::qualifier Q> void qua_static_wxyz(const char* q) {
    T const a0 = tag<T>(4), a1 = tag<T>(5), a2 = tag<T>(6), a3 = tag<T>(7);
    glm::qua<T, Q> const r = glm::qua<T, Q>::wxyz(a0, a1, a2, a3);
    Ev e("cqua"); e.str("cfg", C17_CFGNAME).str("kind", "static_wxyz").str("t", code<T>()).str("q", q); raw(e, "at", (std::string("[\"") + code<T>() + "\",\"" + code<T>() + "\",\"" + code<T>() + "\",\"" + code<T>() + "\"]").c_str());
    e.arg(a0).arg(a1).arg(a2).arg(a3).res(r).emit();
}
template<class T, glm::qualifier Q> void qua_sv(const char* q) {
    T const s = tag<T>(0); glm::vec<3, T, Q> const v = tagvec<3, T, Q>(1);
    glm::qua<T, Q> const r(s, v);
    Ev e("cqua"); e.str("cfg", C17_CFGNAME).str("kind", "sv").str("t", code<T>()).str("q", q); raw(e, "at", (std::string("[\"") + code<T>() + "\",\"" + code<T>() + "\"]").c_str());
    e.arg(s).arg(v).res(r).emit();
}
template<class T, glm::qualifier Q, class U, glm::qualifier P> void qua_conv(const char* q, const char* aq) {
    glm::qua<U, P> const a = tagqua<U, P>(0);
    glm::qua<T, Q> const r(a);
    Ev e("cqua"); e.str("cfg", C17_CFGNAME).str("kind", "conv").str("t", code<T>()).str("q", q).str("aq", aq); raw(e, "at", (std::string("[\"") + code<U>() + "\"]").c_str());
    e.arg(a).res(r).emit();
}

// ---------------------------------------------------------------- constructors taking swizzle operands (operator form only)
// parts: one entry per argument, [] for a scalar, the letters for a swizzle; a = scalar or the *source vector* of the swizzle
#if GLM_CONFIG_SWIZZLE == GLM_SWIZZLE_OPERATOR
#define C17_CSWZ(N, PARTS, CTOR, ...) { glm::vec<N, T, Q> const r CTOR; Ev e("cswz"); e.str("cfg", C17_CFGNAME).num("n", N).str("t", code<T>()).str("q", q).str("set", "xyzw"); \
        raw(e, "parts", PARTS); c17::args(e, __VA_ARGS__); e.res(r).emit(); }
inline void args(Ev&) {}
template<class A, class... B> inline void args(Ev& e, A const& a, B const&... b) { e.arg(a); args(e, b...); }
template<class T, glm::qualifier Q> void swizzle_ctors(const char* q) {
    glm::vec<2, T, Q> const v2 = tagvec<2, T, Q>(0);
    glm::vec<3, T, Q> const v3 = tagvec<3, T, Q>(2);
    glm::vec<4, T, Q> const v4 = tagvec<4, T, Q>(5);
    glm::vec<4, T, Q> const u4 = tagvec<4, T, Q>(9);
    T const s = tag<T>(13), t = tag<T>(14);
    C17_CSWZ(2, "[[\"y\",\"x\"]]", (v2.yx), v2)
    C17_CSWZ(2, "[[\"w\",\"y\"]]", (v4.wy), v4)
    C17_CSWZ(3, "[[\"z\",\"x\",\"y\"]]", (v3.zxy), v3)
    C17_CSWZ(3, "[[\"w\",\"w\",\"y\"]]", (v4.wwy), v4)
    C17_CSWZ(3, "[[\"z\",\"y\"],[]]", (v3.zy, s), v3, s)
    C17_CSWZ(3, "[[],[\"w\",\"x\"]]", (s, v4.wx), s, v4)
    C17_CSWZ(4, "[[\"w\",\"z\",\"y\",\"x\"]]", (v4.wzyx), v4)
    if constexpr (!glm::detail::is_aligned<Q>::value)        // aligned vec2: see the guarded batches (the SIMD body over-reads the source)
        C17_CSWZ(4, "[[\"y\",\"x\",\"x\",\"y\"]]", (v2.yxxy), v2)
    C17_CSWZ(4, "[[\"y\",\"x\"],[\"w\",\"z\"]]", (v2.yx, u4.wz), v2, u4)
    C17_CSWZ(4, "[[],[],[\"z\",\"y\"]]", (s, t, v3.zy), s, t, v3)
    C17_CSWZ(4, "[[],[\"w\",\"y\"],[]]", (s, v4.wy, t), s, v4, t)
    C17_CSWZ(4, "[[\"z\",\"x\"],[],[]]", (v3.zx, s, t), v3, s, t)
    C17_CSWZ(4, "[[\"z\",\"y\",\"x\"],[]]", (v3.zyx, s), v3, s)
    C17_CSWZ(4, "[[],[\"y\",\"w\",\"x\"]]", (s, v4.ywx), s, v4)
}
#endif

inline void handwritten() {
#if GLM_CONFIG_SWIZZLE == GLM_SWIZZLE_OPERATOR
    swizzle_ctors<float, glm::packed_highp>("packed_highp");
    swizzle_ctors<int, glm::packed_highp>("packed_highp");
    swizzle_ctors<double, glm::packed_mediump>("packed_mediump");
    swizzle_ctors<unsigned int, glm::packed_lowp>("packed_lowp");
#  if GLM_CONFIG_ALIGNED_GENTYPES == GLM_ENABLE
    swizzle_ctors<float, glm::aligned_highp>("aligned_highp");
    swizzle_ctors<int, glm::aligned_highp>("aligned_highp");
#  endif
#endif
}

} // namespace c17

#ifndef C17_NO_MAIN
void c17_generated();
#ifndef C17_CFG
void c17_generated() {}
#endif
static void c17_body(int, char**) { c17::handwritten(); c17_generated(); }
int main(int argc, char** argv) { return run_main(argc, argv, c17_body); }
#endif
