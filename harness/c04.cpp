// C04 harness: quaternion / matrix / axis-angle / Euler forms of a rotation.
// argv: <trace-out> <tier>
// The harness only builds inputs (from integer tuples), calls GLM and logs raw bit patterns.
// Inputs that the specification cannot re-derive from the floating arguments are logged as the
// small integers they were made of:
//   "cs"  : for every angle argument the triple (cn, sn, d): the angle handed to GLM is
//           atan2l(sn, cn) (cos = cn/d, sin = sn/d exactly, cn^2 + sn^2 = d^2)
//   "hcs" : same for HALF the angle (angle = 2 * atan2l(sn, cn))
//   "g"   : (w, x, y, z, n) integer tuple a quaternion / matrix was built from
//   "len" / "lu" / "lv" : integer length of an integer vector argument (0 = argument is a unit vector)
// Angles RETURNED by GLM are additionally decoded by the harness as (cosl, sinl) of the returned
// value ("ocs", doubles) -- an output encoding, no judgement.
#include "common.hpp"
#include <glm/gtc/quaternion.hpp>
#include <glm/gtc/type_ptr.hpp>
#include <glm/gtx/quaternion.hpp>
#include <glm/gtx/euler_angles.hpp>
#include <glm/gtx/rotate_vector.hpp>
#include <glm/gtx/dual_quaternion.hpp>
#include <cmath>
#include <numeric>
using namespace vh;
// -DC04_ALIGNED (with GLM_FORCE_INTRINSICS, GLM_FORCE_ALIGNED_GENTYPES and an -m<isa> flag): the same program on the aligned qualifiers,
// i.e. through type_quat_simd.inl and the aligned matrix / vector kernels (lowp stays packed: its approximations are C03's subject)
#ifdef C04_ALIGNED
#include <glm/gtc/type_aligned.hpp>
static const glm::qualifier QH = glm::aligned_highp, QM = glm::aligned_mediump, QL = glm::lowp;
#else
static const glm::qualifier QH = glm::highp, QM = glm::mediump, QL = glm::lowp;
#endif

#ifdef GLM_FORCE_QUAT_DATA_WXYZ
static const char* ORD = "wxyz";
#else
static const char* ORD = "xyzw";
#endif

namespace vh {
struct IVec { std::vector<long long> v; };
inline void put_val(std::string& s, IVec const& iv) {
    s.push_back('[');
    for (size_t i = 0; i < iv.v.size(); ++i) { if (i) s.push_back(','); put_word(s, iv.v[i]); }
    s.push_back(']');
}
struct DVec { std::vector<double> v; };
inline void put_val(std::string& s, DVec const& dv) {
    s.push_back('[');
    for (size_t i = 0; i < dv.v.size(); ++i) { if (i) s.push_back(','); put_word(s, dv.v[i]); }
    s.push_back(']');
}
}

static bool g_thorough = false;
static bool g_wxyz_light = false;      // second build: Euler-matrix part at reduced density

// ------------------------------------------------------------------ integer material
struct IQ { long long w, x, y, z, n; };                 // quaternion (w,x,y,z)/n, w^2+x^2+y^2+z^2 = n^2
struct IV { long long x, y, z, n; };                    // vector (x,y,z), |v| = n (n = 0: length not an integer)
struct CS { long long c, s, d; };                       // cos = c/d, sin = s/d

static long long gcdll(long long a, long long b) { a = a < 0 ? -a : a; b = b < 0 ? -b : b; while (b) { long long t = a % b; a = b; b = t; } return a; }

static std::vector<IQ> enum_quats(int nlo, int nhi) {
    std::vector<IQ> r;
    for (long long n = nlo; n <= nhi; ++n)
        for (long long w = -n; w <= n; ++w) for (long long x = -n; x <= n; ++x) for (long long y = -n; y <= n; ++y) {
            long long rest = n * n - w * w - x * x - y * y;
            if (rest < 0) continue;
            long long z = (long long)std::llround(std::sqrt((double)rest));
            if (z * z != rest) continue;
            for (int sg = 0; sg < 2; ++sg) {
                long long zz = sg ? -z : z;
                if (sg && z == 0) continue;
                if (gcdll(gcdll(gcdll(w, x), gcdll(y, zz)), n) != 1) continue;
                r.push_back({w, x, y, zz, n});
            }
        }
    return r;
}
// near-axis quaternions: (1-t^2, 2t, 0, 0)/(1+t^2), t = 2^-k  ->  integers (4^k - 1, 2^(k+1), 0, 0)/(4^k + 1)
static std::vector<IQ> near_axis(const std::vector<int>& ks) {
    std::vector<IQ> r;
    int rot = 0;
    for (int k : ks) {
        long long big = (1ll << (2 * k)) - 1, sm = 1ll << (k + 1), n = (1ll << (2 * k)) + 1;
        for (int pos = 0; pos < 4; ++pos) {
            int slot = (pos + 1 + (rot++ % 3)) % 4;
            for (int sg = 0; sg < 4; ++sg) {
                long long c[4] = {0, 0, 0, 0};
                c[pos] = (sg & 1) ? -big : big;
                c[slot] = (sg & 2) ? -sm : sm;
                r.push_back({c[0], c[1], c[2], c[3], n});
            }
        }
    }
    return r;
}

template<class T> static T ratio(long long a, long long n) { return T((long double)a / (long double)n); }
template<class T> static T angle_of(CS a) { return T(atan2l((long double)a.s, (long double)a.c)); }
template<class T> static T angle_of_half(CS a) { return T(2.0L * atan2l((long double)a.s, (long double)a.c)); }

template<class T, glm::qualifier Q> static glm::qua<T, Q> mkq(IQ g) {
    glm::qua<T, Q> q;                                     // members are assigned one by one: no constructor under test involved
    q.w = ratio<T>(g.w, g.n); q.x = ratio<T>(g.x, g.n); q.y = ratio<T>(g.y, g.n); q.z = ratio<T>(g.z, g.n);
    return q;
}
template<class T, glm::qualifier Q> static glm::vec<3, T, Q> mkv(IV v, bool unit) {
    glm::vec<3, T, Q> r;
    if (unit) { r.x = ratio<T>(v.x, v.n); r.y = ratio<T>(v.y, v.n); r.z = ratio<T>(v.z, v.n); }
    else { r.x = T(v.x); r.y = T(v.y); r.z = T(v.z); }
    return r;
}
static IVec ivq(IQ g) { return IVec{{g.w, g.x, g.y, g.z, g.n}}; }
static IVec ivcs(std::initializer_list<CS> l) { IVec r; for (auto a : l) { r.v.push_back(a.c); r.v.push_back(a.s); r.v.push_back(a.d); } return r; }
template<class T> static void dec(DVec& d, T a) { d.v.push_back((double)cosl((long double)a)); d.v.push_back((double)sinl((long double)a)); }
template<class T> static void dec_half(DVec& d, T a) { d.v.push_back((double)cosl((long double)a * 0.5L)); d.v.push_back((double)sinl((long double)a * 0.5L)); }

template<glm::qualifier Q> struct QN;
template<> struct QN<QH> { static const char* c() { return "h"; } };
template<> struct QN<QM> { static const char* c() { return "m"; } };
template<> struct QN<QL> { static const char* c() { return "l"; } };
#define E(OP) Ev(OP).str("t", TI<T>::code()).str("p", QN<Q>::c())
#define E0(OP) Ev(OP).str("t", TI<T>::code())

// exact rational rotation matrix of g, rounded entry by entry (input construction for quat_cast)
template<class T, glm::qualifier Q> static glm::mat<3, 3, T, Q> exact_mat(IQ g) {
    long long w = g.w, x = g.x, y = g.y, z = g.z, nn = g.n * g.n;
    glm::mat<3, 3, T, Q> m;
    m[0][0] = ratio<T>(nn - 2 * (y * y + z * z), nn); m[0][1] = ratio<T>(2 * (x * y + w * z), nn); m[0][2] = ratio<T>(2 * (x * z - w * y), nn);
    m[1][0] = ratio<T>(2 * (x * y - w * z), nn); m[1][1] = ratio<T>(nn - 2 * (x * x + z * z), nn); m[1][2] = ratio<T>(2 * (y * z + w * x), nn);
    m[2][0] = ratio<T>(2 * (x * z + w * y), nn); m[2][1] = ratio<T>(2 * (y * z - w * x), nn); m[2][2] = ratio<T>(nn - 2 * (x * x + y * y), nn);
    return m;
}

// ------------------------------------------------------------------ vectors used with q * v
static const IV VBOX[] = { {1, 0, 0, 1}, {0, 1, 0, 1}, {0, 0, 1, 1}, {1, 2, 3, 0}, {-3, 1, 2, 0}, {2, -2, 1, 3}, {0, -1, 2, 0}, {-1, -1, -1, 0},
                           {3, 0, -4, 5}, {100, -7, 3, 0}, {0, 0, 0, 0}, {1, 1, 0, 0}, {-2, 3, 6, 7} };
static const int NVBOX = int(sizeof(VBOX) / sizeof(VBOX[0]));

// ------------------------------------------------------------------ level A: the laws named by the property, every quaternion
template<class T, glm::qualifier Q> static void quat_laws_q(glm::qua<T, Q> q, const IQ* gp, int idx) {
    typedef glm::qua<T, Q> qt; typedef glm::vec<3, T, Q> v3; typedef glm::mat<3, 3, T, Q> m3;
    bool small_n = gp && gp->n < (1ll << 20);
    IQ g = gp ? *gp : IQ{1, 0, 0, 0, 1};
    { m3 r = glm::mat3_cast(q); E("mat3_cast").arg(q).res(r).emit();
      qt b = glm::quat_cast(r); E("cast_rt").arg(q).val("m", r).res(b).emit(); }
    if (small_n) { m3 m = exact_mat<T, Q>(g); qt r = glm::quat_cast(m); E("quat_cast3").arg(m).val("g", ivq(g)).res(r).emit(); }
    for (int k = 0; k < 2; ++k) {
        v3 v = mkv<T, Q>(VBOX[(idx * 2 + k) % NVBOX], false);
        v3 r = q * v; E("qv3").arg(q).arg(v).res(r).emit();
    }
    { qt c = glm::conjugate(q); qt i = glm::inverse(q); E("conj_inv").arg(q).val("cj", c).res(i).emit();
      qt r = q * i; E("q_mul_inv").arg(q).res(r).emit(); }
    { T a = glm::angle(q); DVec d; dec_half(d, a); E("angle").arg(q).val("ocs", d).res(a).emit();
      v3 ax = glm::axis(q); E("axis").arg(q).res(ax).emit();
      qt r = glm::angleAxis(a, ax); E("aa_rt").arg(q).val("ang", a).val("ax", ax).res(r).emit(); }
    { v3 e = glm::eulerAngles(q); DVec d; dec(d, e.x); dec(d, e.y); dec(d, e.z); E("eulerAngles").arg(q).val("ocs", d).res(e).emit();
      qt r = qt(e); E("euler_rt").arg(q).val("eu", e).res(r).emit(); }
}

template<class T, glm::qualifier Q> static void quat_laws(IQ g, int idx, bool) { quat_laws_q<T, Q>(mkq<T, Q>(g), &g, idx); }

// near gimbal lock (yaw ~ +-90 deg): q = qz(roll) * qy(yaw) * qx(pitch) with rational half angles; the half yaw angle comes from the
// Pythagorean triples with legs a, a+1 (3,4,5), (20,21,29), (119,120,169) ... : cos(yaw) = -+(2a+1)/c^2 ~ 1.41/c
static IQ imul(IQ p, IQ q) {
    return IQ{ p.w*q.w - p.x*q.x - p.y*q.y - p.z*q.z, p.w*q.x + p.x*q.w + p.y*q.z - p.z*q.y,
               p.w*q.y + p.y*q.w + p.z*q.x - p.x*q.z, p.w*q.z + p.z*q.w + p.x*q.y - p.y*q.x, p.n*q.n };
}
static std::vector<IQ> near_gimbal(int step) {
    std::vector<IQ> r;
    const CS HA[] = { {1, 0, 1}, {3, 4, 5}, {4, -3, 5}, {5, 12, 13}, {-12, 5, 13}, {0, 1, 1} };
    long long a = 3, c = 5; int cnt = 0;
    while (c < (1ll << 50)) {
        if (cnt % step == 0) {
            for (int v = 0; v < 4; ++v) {
                long long ch = (v & 1) ? a + 1 : a, sh = (v & 1) ? a : a + 1; if (v & 2) sh = -sh;
                CS p = HA[(cnt + v) % 6], rl = HA[(cnt * 2 + v + 1) % 6];
                IQ q = imul(imul(IQ{rl.c, 0, 0, rl.s, rl.d}, IQ{ch, 0, sh, 0, c}), IQ{p.c, p.s, 0, 0, p.d});
                r.push_back(q);
            }
        }
        long long na = 3 * a + 2 * c + 1, nc = 4 * a + 3 * c + 2; a = na; c = nc; ++cnt;
    }
    return r;
}
// exact gimbal lock in the floating format, (a, b, +-a, -+b) with a^2 + b^2 ~ 1/2, and the same with one component moved by j ulps
template<class T, glm::qualifier Q> static std::vector<glm::qua<T, Q>> float_gimbal() {
    std::vector<glm::qua<T, Q>> r;
    const CS PA[] = { {3, 4, 5}, {1, 0, 1}, {-4, 3, 5}, {5, -12, 13}, {0, 1, 1}, {1, 1, 0} };
    int js[] = {0, 1, 2, 5, 16, 100, 1000, 4096, 20000};
    int n = 0;
    for (auto& p : PA) for (int sg = 0; sg < 2; ++sg) for (int j : js) {
        long double d = p.d ? (long double)p.d : sqrtl(2.0L);
        T a = T((long double)p.c / d / sqrtl(2.0L)), b = T((long double)p.s / d / sqrtl(2.0L));
        glm::qua<T, Q> q; q.w = a; q.x = b; q.y = sg ? -a : a; q.z = sg ? b : -b;
        // |w| up and |y| down (or x / z) by j ulps each: the norm is unchanged to first order, cos(yaw) becomes ~ j ulp
        bool wy = (n++ % 2) == 0;
        T& c1 = wy ? q.w : q.x; T& c2 = wy ? q.y : q.z;
        for (int k = 0; k < j; ++k) { c1 = std::nextafter(c1, c1 < 0 ? T(-2) : T(2)); c2 = std::nextafter(c2, T(0)); }
        r.push_back(q);
    }
    return r;
}

// ------------------------------------------------------------------ level B: every other function / overload
template<class T, glm::qualifier Q> static void quat_more(IQ g, int idx) {
    typedef glm::qua<T, Q> qt; typedef glm::vec<3, T, Q> v3; typedef glm::vec<4, T, Q> v4;
    typedef glm::mat<3, 3, T, Q> m3; typedef glm::mat<4, 4, T, Q> m4;
    qt q = mkq<T, Q>(g);
    { m4 r = glm::mat4_cast(q); E("mat4_cast").arg(q).res(r).emit();
      qt b = glm::quat_cast(r); E("quat_cast4").arg(r).res(b).emit();
      qt c = glm::toQuat(r); E("toQuat4").arg(r).res(c).emit();
      qt d = qt(r); E("ctor_mat4").arg(r).res(d).emit(); }
    { m3 r = glm::toMat3(q); E("toMat3").arg(q).res(r).emit();
      qt c = glm::toQuat(r); E("toQuat3").arg(r).res(c).emit();
      qt d = qt(r); E("ctor_mat3").arg(r).res(d).emit(); }
    { m4 r = glm::toMat4(q); E("toMat4").arg(q).res(r).emit(); }
    { m3 r = static_cast<m3>(q); E("conv_mat3").arg(q).res(r).emit(); }
    { m4 r = static_cast<m4>(q); E("conv_mat4").arg(q).res(r).emit(); }
    if (g.n < (1ll << 20)) { m4 m = m4(exact_mat<T, Q>(g)); qt r = glm::quat_cast(m); E("quat_cast4").arg(m).val("g", ivq(g)).res(r).emit(); }
    IV iv = VBOX[(idx * 3 + 1) % NVBOX];
    v3 v = mkv<T, Q>(iv, false);
    v4 vv; vv.x = v.x; vv.y = v.y; vv.z = v.z; vv.w = T((idx % 5) - 2);
    { v3 r = v * q; E("vq3").arg(q).arg(v).res(r).emit(); }
    { v4 r = q * vv; E("qv4").arg(q).arg(vv).res(r).emit(); }
    { v4 r = vv * q; E("vq4").arg(q).arg(vv).res(r).emit(); }
    { v3 r = glm::rotate(q, v); E("grot3").arg(q).arg(v).res(r).emit(); }
    { v4 r = glm::rotate(q, vv); E("grot4").arg(q).arg(vv).res(r).emit(); }
    { v3 r = glm::cross(q, v); E("gcross_qv").arg(q).arg(v).res(r).emit(); }
    { v3 r = glm::cross(v, q); E("gcross_vq").arg(q).arg(v).res(r).emit(); }
    { qt r = -q; E("neg").arg(q).res(r).emit(); }
    { qt r = +q; E("pos").arg(q).res(r).emit(); }
    { qt r = glm::conjugate(q); E("conj").arg(q).res(r).emit(); }
    { qt r = glm::inverse(q); E("inverse").arg(q).res(r).emit(); }
    T s = T((idx % 7) + 2) / T(4);
    { qt r = q * s; E("smul").arg(q).arg(s).res(r).emit(); }
    { qt r = s * q; E("smul_l").arg(q).arg(s).res(r).emit(); }
    { qt r = q / s; E("sdiv").arg(q).arg(s).res(r).emit(); }
    { qt r = q; r *= s; E("smul_asg").arg(q).arg(s).res(r).emit(); }
    { qt r = q; r /= s; E("sdiv_asg").arg(q).arg(s).res(r).emit(); }
    { T r = glm::dot(q, q); E("dot").arg(q).arg(q).res(r).emit(); }
    { T r = glm::length(q); E("length").arg(q).res(r).emit(); }
    { T r = glm::length2(q); E("length2").arg(q).res(r).emit(); }
    { qt r = glm::normalize(q); E("normalize").arg(q).res(r).emit(); }
    // the same on a non-unit multiple: (w,x,y,z) as integers, length n
    { qt p; p.w = T(g.w); p.x = T(g.x); p.y = T(g.y); p.z = T(g.z);
      if (g.n < 4096) {
          { qt r = glm::normalize(p); E("normalize").arg(p).res(r).emit(); }
          { qt r = glm::inverse(p); E("inverse").arg(p).res(r).emit(); }
          { T r = glm::length(p); E("length").arg(p).res(r).emit(); }
          { T r = glm::dot(p, q); E("dot").arg(p).arg(q).res(r).emit(); }
          { qt r = p * glm::inverse(p); E("q_mul_inv").arg(p).res(r).emit(); }
      } }
    { T r = glm::pitch(q); DVec d; dec(d, r); E("pitch").arg(q).val("ocs", d).res(r).emit(); }
    { T r = glm::yaw(q); DVec d; dec(d, r); E("yaw").arg(q).val("ocs", d).res(r).emit(); }
    { T r = glm::roll(q); DVec d; dec(d, r); E("roll").arg(q).val("ocs", d).res(r).emit(); }
    // storage order and constructors
    { glm::vec<4, T, Q> raw; T const* p = glm::value_ptr(q); raw.x = p[0]; raw.y = p[1]; raw.z = p[2]; raw.w = p[3];
      glm::vec<4, T, Q> ix; ix.x = q[0]; ix.y = q[1]; ix.z = q[2]; ix.w = q[3];
      E("mem").str("o", ORD).arg(q).val("raw", raw).val("idx", ix).emit(); }
    { T a = q.w, b = q.x, c = q.y, d = q.z;
      { qt r(a, b, c, d); E("ctor4").arg(a).arg(b).arg(c).arg(d).res(r).emit(); }
      { qt r = qt::wxyz(a, b, c, d); E("ctor_wxyz").arg(a).arg(b).arg(c).arg(d).res(r).emit(); }
      { v3 u; u.x = b; u.y = c; u.z = d; qt r(a, u); E("ctor_sv").arg(a).arg(u).res(r).emit(); }
      { qt r(q); E("ctor_copy").arg(q).res(r).emit(); }
      { glm::qua<T, QM> r(q); Ev("ctor_copy").str("t", TI<T>::code()).str("p", "m").arg(q).res(r).emit(); }
      { qt r; r = q; E("assign").arg(q).res(r).emit(); } }
}
template<class T> static void quat_conv(IQ g) {           // conversion constructors between element types and make_quat
    glm::qua<double, QH> qd = mkq<double, QH>(g);
    glm::qua<float, QH> qf = mkq<float, QH>(g);
    { glm::qua<float, QH> r(qd); Ev("ctor_conv").str("t", "f32").arg(qd).res(r).emit(); }
    { glm::qua<double, QH> r(qf); Ev("ctor_conv").str("t", "f64").arg(qf).res(r).emit(); }
    { glm::qua<float, QH> r; r = qd; Ev("ctor_conv").str("t", "f32").arg(qd).res(r).emit(); }
    { T raw[4] = { ratio<T>(g.w, g.n), ratio<T>(g.x, g.n), ratio<T>(g.y, g.n), ratio<T>(g.z, g.n) };
      glm::vec<4, T, QH> rv; rv.x = raw[0]; rv.y = raw[1]; rv.z = raw[2]; rv.w = raw[3];
      glm::qua<T, QH> r = glm::make_quat(raw);
      E0("make_quat").str("o", ORD).arg(rv).res(r).emit(); }
}

// ------------------------------------------------------------------ pairs
template<class T, glm::qualifier Q> static void quat_pair_q(glm::qua<T, Q> p, glm::qua<T, Q> q) {
    typedef glm::qua<T, Q> qt; typedef glm::mat<3, 3, T, Q> m3;
    qt pq = p * q; E("qmul").arg(p).arg(q).res(pq).emit();
    { qt r = p; r *= q; E("qmul_asg").arg(p).arg(q).res(r).emit(); }
    { qt r = glm::cross(p, q); E("qcross").arg(p).arg(q).res(r).emit(); }
    { m3 a = glm::mat3_cast(pq); m3 b = glm::mat3_cast(p) * glm::mat3_cast(q); E("matprod").arg(p).arg(q).val("m", a).res(b).emit(); }
    { qt r = p + q; E("qadd").arg(p).arg(q).res(r).emit(); }
    { qt r = p - q; E("qsub").arg(p).arg(q).res(r).emit(); }
    { qt r = p; r += q; E("qadd").arg(p).arg(q).res(r).emit(); }
    { qt r = p; r -= q; E("qsub").arg(p).arg(q).res(r).emit(); }
    { T r = glm::dot(p, q); E("dot").arg(p).arg(q).res(r).emit(); }
}

template<class T, glm::qualifier Q> static void quat_pair(IQ g1, IQ g2) { quat_pair_q<T, Q>(mkq<T, Q>(g1), mkq<T, Q>(g2)); }
// random unit quaternions (code -> spec direction): integer 4-tuples from the seeded integer generator, normalised in long double
template<class T, glm::qualifier Q> static glm::qua<T, Q> random_unit(Rng& rng) {
    long long c[4]; long double n2 = 0;
    do { n2 = 0; for (int i = 0; i < 4; ++i) { c[i] = (long long)(rng.below(2097153)) - 1048576; n2 += (long double)c[i] * (long double)c[i]; } } while (n2 == 0);
    long double n = sqrtl(n2);
    glm::qua<T, Q> q; q.w = T((long double)c[0] / n); q.x = T((long double)c[1] / n); q.y = T((long double)c[2] / n); q.z = T((long double)c[3] / n);
    return q;
}

// ------------------------------------------------------------------ angle inputs
static std::vector<CS> angle_set(bool full) {
    std::vector<CS> a = { {3, 4, 5}, {1, 0, 1}, {0, 1, 1}, {-4, 3, 5}, {5, -12, 13}, {0, -1, 1}, {-1, 0, 1}, {4, -3, 5}, {-5, -12, 13} };
    auto tiny = [](int k) { return CS{(1ll << (2 * k)) - 1, 1ll << (k + 1), (1ll << (2 * k)) + 1}; };           // angle ~ 2^(1-k)
    auto near90 = [](int k, int sg) { return CS{1ll << (k + 1), sg * ((1ll << (2 * k)) - 1), (1ll << (2 * k)) + 1}; };   // +-90 deg -+ 2^(1-k)
    a.push_back(tiny(12)); a.push_back(near90(12, 1)); a.push_back(near90(12, -1));
    // near +-90 deg with a sine that is NOT of the form 1 - 2^-j (a sine that happens to be exactly representable hides cancellation
    // in formulas such as sqrt(1 - sin^2)):  t = p/q  ->  cos = 2pq/(p^2+q^2), sin = +-(q^2-p^2)/(p^2+q^2)
    auto near90r = [](long long p, long long q, int sg) { return CS{2 * p * q, sg * (q * q - p * p), p * p + q * q}; };
    a.push_back(near90r(3, 8193, 1)); a.push_back(near90r(5, 33554433, -1));
    if (full) { a.push_back({7, 24, 25}); a.push_back({-8, -15, 17}); a.push_back(tiny(20)); a.push_back(tiny(26)); a.push_back(near90(6, 1));
                a.push_back(near90(20, 1)); a.push_back(near90(26, -1)); a.push_back({20, 21, 29}); a.push_back({-1, 0, 1}); }
    return a;
}
static const IV AXES[] = { {1, 0, 0, 1}, {0, 1, 0, 1}, {0, 0, 1, 1}, {1, 2, 2, 3}, {2, 3, 6, 7}, {-1, 4, -8, 9}, {2, -10, 11, 15}, {0, -3, 4, 5}, {-6, -2, 3, 7}, {0, 0, -1, 1} };
static const int NAXES = int(sizeof(AXES) / sizeof(AXES[0]));

template<class T, glm::qualifier Q> static void angle_axis_ops(const std::vector<CS>& A, const std::vector<IQ>& qs) {
    typedef glm::qua<T, Q> qt; typedef glm::vec<3, T, Q> v3; typedef glm::vec<4, T, Q> v4; typedef glm::vec<2, T, Q> v2;
    int n = 0;
    for (size_t i = 0; i < A.size(); ++i) for (int j = 0; j < NAXES; ++j, ++n) {
        CS h = A[i]; IV ia = AXES[j];
        T ang = angle_of_half<T>(h);
        v3 axu = mkv<T, Q>(ia, true);
        { qt r = glm::angleAxis(ang, axu); E("angleAxis").arg(ang).arg(axu).val("hcs", ivcs({h})).res(r).emit(); }
        IQ g = qs[(n * 7) % qs.size()];
        qt q = mkq<T, Q>(g);
        { qt r = glm::rotate(q, ang, axu); E("qrotate").num("len", 0).arg(q).arg(ang).arg(axu).val("hcs", ivcs({h})).res(r).emit(); }
        v3 axi = mkv<T, Q>(ia, false);                     // non-normalised axis: rotate() normalises it
        { qt r = glm::rotate(q, ang, axi); E("qrotate").num("len", ia.n).arg(q).arg(ang).arg(axi).val("hcs", ivcs({h})).res(r).emit(); }
        // gtx/rotate_vector with the full angle
        T fa = angle_of<T>(h);
        v3 v = mkv<T, Q>(VBOX[n % NVBOX], false);
        v4 vv; vv.x = v.x; vv.y = v.y; vv.z = v.z; vv.w = T(1);
        { v3 r = glm::rotate(v, fa, axu); E("rv_rotate3").num("len", 0).arg(v).arg(fa).arg(axu).val("cs", ivcs({h})).res(r).emit(); }
        { v3 r = glm::rotate(v, fa, axi); E("rv_rotate3").num("len", ia.n).arg(v).arg(fa).arg(axi).val("cs", ivcs({h})).res(r).emit(); }
        { v4 r = glm::rotate(vv, fa, axi); E("rv_rotate4").num("len", ia.n).arg(vv).arg(fa).arg(axi).val("cs", ivcs({h})).res(r).emit(); }
        if (j < 3) {
            { v3 r = glm::rotateX(v, fa); E("rotateX3").arg(v).arg(fa).val("cs", ivcs({h})).res(r).emit(); }
            { v3 r = glm::rotateY(v, fa); E("rotateY3").arg(v).arg(fa).val("cs", ivcs({h})).res(r).emit(); }
            { v3 r = glm::rotateZ(v, fa); E("rotateZ3").arg(v).arg(fa).val("cs", ivcs({h})).res(r).emit(); }
            { v4 r = glm::rotateX(vv, fa); E("rotateX4").arg(vv).arg(fa).val("cs", ivcs({h})).res(r).emit(); }
            { v4 r = glm::rotateY(vv, fa); E("rotateY4").arg(vv).arg(fa).val("cs", ivcs({h})).res(r).emit(); }
            { v4 r = glm::rotateZ(vv, fa); E("rotateZ4").arg(vv).arg(fa).val("cs", ivcs({h})).res(r).emit(); }
            v2 w2; w2.x = v.x; w2.y = v.y;
            { v2 r = glm::rotate(w2, fa); E("rv_rotate2").arg(w2).arg(fa).val("cs", ivcs({h})).res(r).emit(); }
        }
    }
    // qua(vec3 eulerAngles): half angles rational
    for (size_t i = 0; i < A.size(); ++i) for (size_t j = 0; j < A.size(); ++j) for (size_t k = 0; k < A.size(); ++k) {
        if ((i * 31 + j * 7 + k) % (g_thorough ? 4 : 5) != 0) continue;
        v3 e; e.x = angle_of_half<T>(A[i]); e.y = angle_of_half<T>(A[j]); e.z = angle_of_half<T>(A[k]);
        qt r = qt(e); E("ctor_euler").arg(e).val("hcs", ivcs({A[i], A[j], A[k]})).res(r).emit();
    }
    // orientation(Normal, Up)
    for (int i = 0; i < NAXES; ++i) for (int j = 0; j < NAXES; ++j) {
        if ((AXES[i].x == -AXES[j].x && AXES[i].y == -AXES[j].y && AXES[i].z == -AXES[j].z)) continue;   // opposite: axis undefined
        v3 nrm = mkv<T, Q>(AXES[i], true), up = mkv<T, Q>(AXES[j], true);
        glm::mat<4, 4, T, Q> r = glm::orientation(nrm, up); E("orientation").arg(nrm).arg(up).res(r).emit();
    }
}

// ------------------------------------------------------------------ rotation between two vectors
template<class T, glm::qualifier Q> static void two_vectors() {
    typedef glm::qua<T, Q> qt; typedef glm::vec<3, T, Q> v3;
    std::vector<std::pair<IV, IV>> ps;
    for (int i = 0; i < NAXES; ++i) for (int j = 0; j < NAXES; ++j) ps.push_back({AXES[i], AXES[j]});      // includes u = v and u = -v ((0,0,1),(0,0,-1))
    for (int i = 0; i < NAXES; ++i) { IV a = AXES[i]; ps.push_back({a, IV{-a.x, -a.y, -a.z, a.n}}); }      // antiparallel
    auto emit = [&](v3 u, v3 v, long long lu, long long lv) {
        { qt r(u, v); E("ctor_uv").num("lu", lu).num("lv", lv).arg(u).arg(v).res(r).emit(); }
        if (lu == 0) { qt r = glm::rotation(u, v); E("rotation").num("lu", 0).num("lv", 0).arg(u).arg(v).res(r).emit(); }   // documented for normalised input
    };
    for (auto& p : ps) {
        emit(mkv<T, Q>(p.first, true), mkv<T, Q>(p.second, true), 0, 0);
        emit(mkv<T, Q>(p.first, false), mkv<T, Q>(p.second, false), p.first.n, p.second.n);
    }
    // generic nearly (anti)parallel pairs: v = +-(c u + s m), u, m orthogonal rational unit vectors, (c, s) = ((1-t^2), 2t)/(1+t^2), t = 2^-k
    {
        const IV U[] = { {1, 2, 2, 3}, {2, 3, 6, 7}, {-6, -2, 3, 7}, {2, -10, 11, 15} };
        const IV M[] = { {2, 1, -2, 3}, {3, -6, 2, 7}, {3, -6, 2, 7}, {10, -5, -14, 15} };   // m.u = 0 (m is rescaled below to |m| = |u|)
        int kk[] = {2, 3, 4, 5, 6, 7, 8, 9, 10, 11, 12, 14, 16, 18, 21, 23, 25, 26};
        for (int k : kk) for (int i = 0; i < 4; ++i) for (int sg = 0; sg < 2; ++sg) {
            if (k > 12 && sizeof(T) == 4 && (k % 2)) continue;
            long long c = (1ll << (2 * k)) - 1, sn = 1ll << (k + 1), d = (1ll << (2 * k)) + 1;
            IV u = U[i], m = M[i];
            if (u.x * m.x + u.y * m.y + u.z * m.z != 0 || u.n != m.n) continue;
            long long sgn = sg ? -1 : 1;
            IV v = { sgn * (c * u.x + sn * m.x), sgn * (c * u.y + sn * m.y), sgn * (c * u.z + sn * m.z), d * u.n };
            emit(mkv<T, Q>(u, true), mkv<T, Q>(v, true), 0, 0);
            if (k < 12) emit(mkv<T, Q>(u, false), mkv<T, Q>(v, false), u.n, v.n);
        }
    }
    // nearly parallel / nearly antiparallel: u = e_i, v = +-((1-t^2) e_i + 2t e_j)/(1+t^2)
    int ks[] = {1, 4, 8, 10, 11, 12, 13, 16, 20, 24, 25, 26, 27, 28, 30};
    for (int k : ks) for (int ax = 0; ax < 3; ++ax) for (int sg = 0; sg < 2; ++sg) {
        long long big = (1ll << (2 * k)) - 1, sm = 1ll << (k + 1), n = (1ll << (2 * k)) + 1;
        long long c[3] = {0, 0, 0}; c[ax] = sg ? -big : big; c[(ax + 1 + k % 2) % 3] = (k % 3 == 0) ? -sm : sm;
        long long e[3] = {0, 0, 0}; e[ax] = 1;
        emit(mkv<T, Q>(IV{e[0], e[1], e[2], 1}, true), mkv<T, Q>(IV{c[0], c[1], c[2], n}, true), 0, 0);
        emit(mkv<T, Q>(IV{c[0], c[1], c[2], n}, true), mkv<T, Q>(IV{e[0], e[1], e[2], 1}, true), 0, 0);
    }
}

// ------------------------------------------------------------------ Euler matrices (gtx/euler_angles)
template<class T> struct EulerFn3 { const char* nm; glm::mat<4, 4, T, glm::defaultp> (*f)(T const&, T const&, T const&);
                                    void (*x)(glm::mat<4, 4, T, glm::defaultp> const&, T&, T&, T&); };
template<class T> static std::vector<EulerFn3<T>> euler3() {
    return { {"XYZ", &glm::eulerAngleXYZ<T>, &glm::extractEulerAngleXYZ<T>}, {"YXZ", &glm::eulerAngleYXZ<T>, &glm::extractEulerAngleYXZ<T>},
             {"XZX", &glm::eulerAngleXZX<T>, &glm::extractEulerAngleXZX<T>}, {"XYX", &glm::eulerAngleXYX<T>, &glm::extractEulerAngleXYX<T>},
             {"YXY", &glm::eulerAngleYXY<T>, &glm::extractEulerAngleYXY<T>}, {"YZY", &glm::eulerAngleYZY<T>, &glm::extractEulerAngleYZY<T>},
             {"ZYZ", &glm::eulerAngleZYZ<T>, &glm::extractEulerAngleZYZ<T>}, {"ZXZ", &glm::eulerAngleZXZ<T>, &glm::extractEulerAngleZXZ<T>},
             {"XZY", &glm::eulerAngleXZY<T>, &glm::extractEulerAngleXZY<T>}, {"YZX", &glm::eulerAngleYZX<T>, &glm::extractEulerAngleYZX<T>},
             {"ZYX", &glm::eulerAngleZYX<T>, &glm::extractEulerAngleZYX<T>}, {"ZXY", &glm::eulerAngleZXY<T>, &glm::extractEulerAngleZXY<T>} };
}
template<class T> static void euler_ops(const std::vector<CS>& A, int stride) {
    typedef glm::mat<4, 4, T, glm::defaultp> m4;
    typedef glm::vec<3, T, glm::defaultp> v3;
    for (size_t i = 0; i < A.size(); ++i) {
        T a = angle_of<T>(A[i]);
        { m4 r = glm::eulerAngleX(a); E0("euler").str("nm", "X").arg(a).val("cs", ivcs({A[i]})).res(r).emit(); }
        { m4 r = glm::eulerAngleY(a); E0("euler").str("nm", "Y").arg(a).val("cs", ivcs({A[i]})).res(r).emit(); }
        { m4 r = glm::eulerAngleZ(a); E0("euler").str("nm", "Z").arg(a).val("cs", ivcs({A[i]})).res(r).emit(); }
        { glm::mat<2, 2, T, glm::defaultp> r = glm::orientate2(a); E0("orientate2").arg(a).val("cs", ivcs({A[i]})).res(r).emit(); }
        { glm::mat<3, 3, T, glm::defaultp> r = glm::orientate3(a); E0("orientate3s").arg(a).val("cs", ivcs({A[i]})).res(r).emit(); }
        T w = T(int(i % 5) - 2) / T(2);
        { m4 r = glm::derivedEulerAngleX(a, w); E0("deuler").str("nm", "X").arg(a).arg(w).val("cs", ivcs({A[i]})).res(r).emit(); }
        { m4 r = glm::derivedEulerAngleY(a, w); E0("deuler").str("nm", "Y").arg(a).arg(w).val("cs", ivcs({A[i]})).res(r).emit(); }
        { m4 r = glm::derivedEulerAngleZ(a, w); E0("deuler").str("nm", "Z").arg(a).arg(w).val("cs", ivcs({A[i]})).res(r).emit(); }
    }
    int cnt = 0;
    for (size_t i = 0; i < A.size(); ++i) for (size_t j = 0; j < A.size(); ++j) {
        if ((cnt++ % stride) != 0 && stride > 1 && i != j) continue;
        T a = angle_of<T>(A[i]), b = angle_of<T>(A[j]);
        IVec cs = ivcs({A[i], A[j]});
        { m4 r = glm::eulerAngleXY(a, b); E0("euler").str("nm", "XY").arg(a).arg(b).val("cs", cs).res(r).emit(); }
        { m4 r = glm::eulerAngleYX(a, b); E0("euler").str("nm", "YX").arg(a).arg(b).val("cs", cs).res(r).emit(); }
        { m4 r = glm::eulerAngleXZ(a, b); E0("euler").str("nm", "XZ").arg(a).arg(b).val("cs", cs).res(r).emit(); }
        { m4 r = glm::eulerAngleZX(a, b); E0("euler").str("nm", "ZX").arg(a).arg(b).val("cs", cs).res(r).emit(); }
        { m4 r = glm::eulerAngleYZ(a, b); E0("euler").str("nm", "YZ").arg(a).arg(b).val("cs", cs).res(r).emit(); }
        { m4 r = glm::eulerAngleZY(a, b); E0("euler").str("nm", "ZY").arg(a).arg(b).val("cs", cs).res(r).emit(); }
    }
    auto fns = euler3<T>();
    // outer angles from a core subset unless thorough; the middle angle runs through the whole set (gimbal cases included)
    size_t core = g_thorough ? 8 : 4;
    cnt = 0;
    for (size_t i = 0; i < core; ++i) for (size_t j = 0; j < A.size(); ++j) for (size_t k = 0; k < core; ++k) {
        if ((cnt++ % stride) != 0) continue;
        size_t i1 = (i * 2 + j) % A.size(), k1 = (k * 3 + j + 1) % A.size();
        CS c1 = A[i1], c2 = A[j], c3 = A[k1];
        T a = angle_of<T>(c1), b = angle_of<T>(c2), c = angle_of<T>(c3);
        IVec cs = ivcs({c1, c2, c3});
        for (auto& f : fns) {
            m4 m = f.f(a, b, c); E0("euler").str("nm", f.nm).arg(a).arg(b).arg(c).val("cs", cs).res(m).emit();
            T t1, t2, t3; f.x(m, t1, t2, t3);
            m4 rb = f.f(t1, t2, t3);
            v3 t; t.x = t1; t.y = t2; t.z = t3;
            DVec d; dec(d, t1); dec(d, t2); dec(d, t3);
            E0("extract").str("nm", f.nm).arg(m).val("ang", t).val("ocs", d).res(rb).emit();
        }
        { m4 r = glm::yawPitchRoll(a, b, c); E0("yawPitchRoll").arg(a).arg(b).arg(c).val("cs", cs).res(r).emit(); }
        v3 an; an.x = a; an.y = b; an.z = c;
        { glm::mat<3, 3, T, glm::defaultp> r = glm::orientate3(an); E0("orientate3").arg(an).val("cs", cs).res(r).emit(); }
        { m4 r = glm::orientate4(an); E0("orientate4").arg(an).val("cs", cs).res(r).emit(); }
    }
}
// extract on exact rational rotation matrices (entries rounded one by one), every decomposition
template<class T> static void extract_exact(const std::vector<IQ>& qs, int stride) {
    typedef glm::mat<4, 4, T, glm::defaultp> m4; typedef glm::vec<3, T, glm::defaultp> v3;
    auto fns = euler3<T>();
    for (size_t i = 0; i < qs.size(); i += stride) {
        m4 m = m4(exact_mat<T, glm::defaultp>(qs[i]));
        for (auto& f : fns) {
            T t1, t2, t3; f.x(m, t1, t2, t3);
            m4 rb = f.f(t1, t2, t3);
            v3 t; t.x = t1; t.y = t2; t.z = t3;
            DVec d; dec(d, t1); dec(d, t2); dec(d, t3);
            E0("extract").str("nm", f.nm).arg(m).val("ang", t).val("ocs", d).res(rb).emit();
        }
    }
}

// ------------------------------------------------------------------ dual quaternions
template<class T, glm::qualifier Q> static void dual_ops(IQ g, int idx) {
    typedef glm::qua<T, Q> qt; typedef glm::vec<3, T, Q> v3; typedef glm::vec<4, T, Q> v4; typedef glm::tdualquat<T, Q> dq;
    qt q = mkq<T, Q>(g);
    v3 p = mkv<T, Q>(VBOX[(idx + 3) % NVBOX], false);
    dq d(q, p);
    E("dq_ctor").arg(q).arg(p).val("d", d.dual).res(d.real).emit();
    { glm::mat<3, 4, T, Q> m = glm::mat3x4_cast(d); E("dq_mat3x4").arg(d.real).arg(d.dual).res(m).emit();
      dq b = glm::dualquat_cast(m); E("dq_cast3x4").arg(m).val("d", b.dual).res(b.real).emit();
      E("dq_rt").arg(d.real).arg(d.dual).val("d", b.dual).res(b.real).emit(); }
    { glm::mat<2, 4, T, Q> m = glm::mat2x4_cast(d); E("dq_mat2x4").arg(d.real).arg(d.dual).res(m).emit();
      dq b = glm::dualquat_cast(m); E("dq_cast2x4").arg(m).val("d", b.dual).res(b.real).emit(); }
    v3 v = mkv<T, Q>(VBOX[(idx * 5 + 2) % NVBOX], false);
    v4 vv; vv.x = v.x; vv.y = v.y; vv.z = v.z; vv.w = T(1);
    { v3 r = d * v; E("dq_v3").arg(d.real).arg(d.dual).arg(v).res(r).emit(); }
    { v4 r = d * vv; E("dq_v4").arg(d.real).arg(d.dual).arg(vv).res(r).emit(); }
    { v3 r = v * d; E("v_dq3").arg(d.real).arg(d.dual).arg(v).res(r).emit(); }
    { dq i = glm::inverse(d); E("dq_inverse").arg(d.real).arg(d.dual).val("d", i.dual).res(i.real).emit(); }
}

// ------------------------------------------------------------------ drivers
template<class T> static void run_type() {
    std::vector<IQ> small = enum_quats(1, g_thorough ? 9 : 5);
    std::vector<IQ> mid = g_thorough ? enum_quats(10, 11) : enum_quats(7, 7);
    std::vector<int> ks = g_thorough ? std::vector<int>{1, 2, 3, 5, 8, 10, 11, 12, 13, 14, 16, 20, 22, 24, 25, 26, 27, 28, 29, 30}
                                     : std::vector<int>{1, 3, 8, 11, 12, 13, 16, 20, 24, 26, 27, 30};
    std::vector<IQ> near = near_axis(ks);
    int idx = 0;
    int bstride = g_thorough ? 3 : 9;
    for (auto& g : small) {
        quat_laws<T, QH>(g, idx, true);
        if (idx % bstride == 0) { quat_more<T, QH>(g, idx); dual_ops<T, QH>(g, idx); }
        if (idx % (bstride * 4) == 1) { quat_laws<T, QM>(g, idx, true); quat_more<T, QM>(g, idx); }
        if (idx % (bstride * 4) == 2) { quat_laws<T, QL>(g, idx, true); quat_more<T, QL>(g, idx); }
        if (idx % bstride == 3) quat_conv<T>(g);
        ++idx;
    }
    size_t midstride = g_thorough ? 5 : 23;
    for (size_t i = 0; i < mid.size(); i += midstride) { quat_laws<T, QH>(mid[i], idx, true); if (idx % 4 == 0) quat_more<T, QH>(mid[i], idx); ++idx; }
    for (auto& g : near) {
        quat_laws<T, QH>(g, idx, false);
        if (idx % 4 == 0) { quat_more<T, QH>(g, idx); dual_ops<T, QH>(g, idx); }
        ++idx;
    }
    std::vector<IQ> gim = near_gimbal(g_thorough ? 1 : 2);
    for (auto& g : gim) { quat_laws<T, QH>(g, idx, false); if (idx % 8 == 0) quat_more<T, QH>(g, idx); ++idx; }
    for (auto& q : float_gimbal<T, QH>()) { quat_laws_q<T, QH>(q, nullptr, idx); ++idx; }
    {
        Rng rng(seed_from_env() * 1000003ull + sizeof(T));
        int nr = g_thorough ? 2500 : 160;
        glm::qua<T, QH> prev = random_unit<T, QH>(rng);
        for (int i = 0; i < nr; ++i) {
            glm::qua<T, QH> q = random_unit<T, QH>(rng);
            quat_laws_q<T, QH>(q, nullptr, idx); ++idx;
            if (i % 2 == 0) quat_pair_q<T, QH>(prev, q);
            prev = q;
        }
    }
    // pairs
    size_t ps = g_thorough ? 31 : 41;
    for (size_t i = 0; i < small.size(); i += ps) for (size_t j = (i / ps) % 5; j < small.size(); j += ps + 2) quat_pair<T, QH>(small[i], small[j]);
    for (size_t i = 0; i < near.size(); i += 5) { quat_pair<T, QH>(near[i], small[(i * 13) % small.size()]); quat_pair<T, QH>(small[(i * 11) % small.size()], near[i]); }
    for (size_t i = 0; i + 1 < small.size(); i += ps * 3) { quat_pair<T, QM>(small[i], small[i + 1]); quat_pair<T, QL>(small[i + 1], small[i]); }
    std::vector<CS> A = angle_set(g_thorough);
    angle_axis_ops<T, QH>(A, small);
    two_vectors<T, QH>();
    if (g_thorough) two_vectors<T, QM>();
    euler_ops<T>(A, g_wxyz_light ? 8 : 1);
    extract_exact<T>(small, g_wxyz_light ? 59 : (g_thorough ? 3 : 17));
}

static void body(int argc, char** argv) {
    g_thorough = argc > 2 && std::string(argv[2]) == "thorough";
#if defined(GLM_FORCE_QUAT_DATA_WXYZ) && !defined(C04_FULL)     // C04_FULL: same program in both layouts (C15 compares the traces)
    g_wxyz_light = true;
#endif
    run_type<float>();
    run_type<double>();
}
int main(int argc, char** argv) { return run_main(argc, argv, body); }
